// trusted: a slice never has more than usize::MAX elements (Rust: at most isize::MAX bytes)
#[verifier::external_body]
proof fn axiom_slice_len_bound(s: &[u8]) ensures s@.len() <= usize::MAX {}
