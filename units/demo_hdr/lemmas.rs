// C15 (chunk headers): what ChunkHeader::write emits, ChunkHeader::read parses back to the same header,
// consuming exactly the header and without a warning -- over the contracts `header_bytes` / `rd`.
proof fn lemma_header_roundtrip(h: ChunkHeader, tail: Seq<u8>)
    requires writable(h),
    ensures rd(header_bytes(h) + tail) == Some((h, header_bytes(h).len() as int, false)),
{
    broadcast use {axiom_i32_be, axiom_u16_le};
    let b = header_bytes(h) + tail;
    match h {
        ChunkHeader::Tick { marker: TickMarker::Delta(dt), keyframe } => {
            let f: u8 = (0b1000_0000u8 | 0b0010_0000u8 | dt) as u8;
            assert(b[0] == f);
            assert(f & 0b1000_0000u8 != 0 && f & 0b0100_0000u8 == 0 && f & 0b0010_0000u8 != 0 && f & 0b0001_1111u8 == dt) by (bit_vector)
                requires f == (0b1000_0000u8 | 0b0010_0000u8 | dt), dt <= 31u8;
        }
        ChunkHeader::Tick { marker: TickMarker::Absolute(t), keyframe } => {
            let k: u8 = if keyframe { 0b0100_0000u8 } else { 0u8 };
            let f: u8 = (0b1000_0000u8 | k) as u8;
            assert(b[0] == f);
            assert(f & 0b1000_0000u8 != 0 && (f & 0b0100_0000u8 != 0) == (k == 0b0100_0000u8) && f & 0b0010_0000u8 == 0 && f & 0b0001_1111u8 == 0) by (bit_vector)
                requires f == (0b1000_0000u8 | k), k == 0b0100_0000u8 || k == 0u8;
            assert(header_bytes(h).len() == 5);
            assert(b.subrange(1, 5) =~= i32_be(t));
        }
        ChunkHeader::Data { kind, size } => {
            let kf = kind_flag(kind);
            assert(kf == 0b0010_0000u8 || kf == 0b0100_0000u8 || kf == 0b0110_0000u8);
            if size < 30 {
                let s8 = size as u8;
                let f: u8 = (kf | s8) as u8;
                assert(b[0] == f);
                assert(f & 0b1000_0000u8 == 0 && f & 0b0110_0000u8 == kf && f & 0b0001_1111u8 == s8) by (bit_vector)
                    requires f == (kf | s8), s8 < 30u8, kf == 0b0010_0000u8 || kf == 0b0100_0000u8 || kf == 0b0110_0000u8;
            } else if size <= 255 {
                let f: u8 = (kf | 30u8) as u8;
                assert(b[0] == f);
                assert(b[1] == size as u8);
                assert(f & 0b1000_0000u8 == 0 && f & 0b0110_0000u8 == kf && f & 0b0001_1111u8 == 30u8) by (bit_vector)
                    requires f == (kf | 30u8), kf == 0b0010_0000u8 || kf == 0b0100_0000u8 || kf == 0b0110_0000u8;
            } else {
                let f: u8 = (kf | 31u8) as u8;
                assert(b[0] == f);
                assert(f & 0b1000_0000u8 == 0 && f & 0b0110_0000u8 == kf && f & 0b0001_1111u8 == 31u8) by (bit_vector)
                    requires f == (kf | 31u8), kf == 0b0010_0000u8 || kf == 0b0100_0000u8 || kf == 0b0110_0000u8;
                assert(header_bytes(h).len() == 3);
                assert(b.subrange(1, 3) =~= u16_le(size));
            }
        }
    }
}
