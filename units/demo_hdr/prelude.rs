// ---- stand-ins for std::io and binrw over a ghost byte stream -------------------------------------
mod io {
    use vstd::prelude::*;
    pub trait Write { spec fn out(&self) -> Seq<u8>; }
    pub trait Seek {}
    pub trait Read { spec fn rest(&self) -> Seq<u8>; }
}
mod binrw {
    use vstd::prelude::*;
    pub struct Error { pub eof: bool }
    impl Error {
        pub fn is_eof(&self) -> (r: bool) ensures r == self.eof, { self.eof }
    }
    pub type BinResult<T> = Result<T, Error>;
}
// byte encodings (byteorder): lengths and decode(encode(x)) == x are assumed
pub uninterp spec fn i32_be(x: i32) -> Seq<u8>;
pub uninterp spec fn be_i32(b: Seq<u8>) -> i32;
pub uninterp spec fn u16_le(x: u16) -> Seq<u8>;
pub uninterp spec fn le_u16(b: Seq<u8>) -> u16;
#[verifier::external_body]
pub broadcast proof fn axiom_i32_be(x: i32)
    ensures #[trigger] i32_be(x).len() == 4, be_i32(i32_be(x)) == x,
{}
#[verifier::external_body]
pub broadcast proof fn axiom_u16_le(y: u16)
    ensures #[trigger] u16_le(y).len() == 2, le_u16(u16_le(y)) == y,
{}

pub trait BinWrite: Sized {
    spec fn enc(&self) -> Seq<u8>;
    spec fn enc_be(&self) -> Seq<u8>;
    spec fn enc_le(&self) -> Seq<u8>;
    fn write<W: io::Write + io::Seek>(&self, file: &mut W) -> (r: binrw::BinResult<()>)
        ensures r is Ok ==> (*final(file)).out() == (*old(file)).out() + self.enc();
    fn write_be<W: io::Write + io::Seek>(&self, file: &mut W) -> (r: binrw::BinResult<()>)
        ensures r is Ok ==> (*final(file)).out() == (*old(file)).out() + self.enc_be();
    fn write_le<W: io::Write + io::Seek>(&self, file: &mut W) -> (r: binrw::BinResult<()>)
        ensures r is Ok ==> (*final(file)).out() == (*old(file)).out() + self.enc_le();
}
impl BinWrite for u8 {
    open spec fn enc(&self) -> Seq<u8> { seq![*self] }
    open spec fn enc_be(&self) -> Seq<u8> { seq![*self] }
    open spec fn enc_le(&self) -> Seq<u8> { seq![*self] }
    #[verifier::external_body] fn write<W: io::Write + io::Seek>(&self, file: &mut W) -> (r: binrw::BinResult<()>) { unimplemented!() }
    #[verifier::external_body] fn write_be<W: io::Write + io::Seek>(&self, file: &mut W) -> (r: binrw::BinResult<()>) { unimplemented!() }
    #[verifier::external_body] fn write_le<W: io::Write + io::Seek>(&self, file: &mut W) -> (r: binrw::BinResult<()>) { unimplemented!() }
}
impl BinWrite for u16 {
    open spec fn enc(&self) -> Seq<u8> { u16_le(*self) }
    open spec fn enc_be(&self) -> Seq<u8> { u16_le(*self) }
    open spec fn enc_le(&self) -> Seq<u8> { u16_le(*self) }
    #[verifier::external_body] fn write<W: io::Write + io::Seek>(&self, file: &mut W) -> (r: binrw::BinResult<()>) { unimplemented!() }
    #[verifier::external_body] fn write_be<W: io::Write + io::Seek>(&self, file: &mut W) -> (r: binrw::BinResult<()>) { unimplemented!() }
    #[verifier::external_body] fn write_le<W: io::Write + io::Seek>(&self, file: &mut W) -> (r: binrw::BinResult<()>) { unimplemented!() }
}
impl BinWrite for i32 {
    open spec fn enc(&self) -> Seq<u8> { i32_be(*self) }
    open spec fn enc_be(&self) -> Seq<u8> { i32_be(*self) }
    open spec fn enc_le(&self) -> Seq<u8> { i32_be(*self) }
    #[verifier::external_body] fn write<W: io::Write + io::Seek>(&self, file: &mut W) -> (r: binrw::BinResult<()>) { unimplemented!() }
    #[verifier::external_body] fn write_be<W: io::Write + io::Seek>(&self, file: &mut W) -> (r: binrw::BinResult<()>) { unimplemented!() }
    #[verifier::external_body] fn write_le<W: io::Write + io::Seek>(&self, file: &mut W) -> (r: binrw::BinResult<()>) { unimplemented!() }
}
pub trait BinRead: Sized {
    spec fn width() -> nat;
    spec fn dec(b: Seq<u8>) -> Self;
    // fewer bytes than needed: an EOF error when nothing at all is left
    fn read<R: io::Read + io::Seek>(data: &mut R) -> (r: binrw::BinResult<Self>)
        ensures
            (*old(data)).rest().len() >= Self::width() ==> r is Ok && r->Ok_0 == Self::dec((*old(data)).rest().subrange(0, Self::width() as int))
                && (*final(data)).rest() == (*old(data)).rest().subrange(Self::width() as int, (*old(data)).rest().len() as int),
            (*old(data)).rest().len() < Self::width() ==> r is Err,
            (*old(data)).rest().len() == 0 ==> r is Err && r->Err_0.eof;
    fn read_be<R: io::Read + io::Seek>(data: &mut R) -> (r: binrw::BinResult<Self>)
        ensures
            (*old(data)).rest().len() >= Self::width() ==> r is Ok && r->Ok_0 == Self::dec((*old(data)).rest().subrange(0, Self::width() as int))
                && (*final(data)).rest() == (*old(data)).rest().subrange(Self::width() as int, (*old(data)).rest().len() as int),
            (*old(data)).rest().len() < Self::width() ==> r is Err;
    fn read_le<R: io::Read + io::Seek>(data: &mut R) -> (r: binrw::BinResult<Self>)
        ensures
            (*old(data)).rest().len() >= Self::width() ==> r is Ok && r->Ok_0 == Self::dec((*old(data)).rest().subrange(0, Self::width() as int))
                && (*final(data)).rest() == (*old(data)).rest().subrange(Self::width() as int, (*old(data)).rest().len() as int),
            (*old(data)).rest().len() < Self::width() ==> r is Err;
}
impl BinRead for u8 {
    open spec fn width() -> nat { 1 }
    open spec fn dec(b: Seq<u8>) -> u8 { b[0] }
    #[verifier::external_body] fn read<R: io::Read + io::Seek>(data: &mut R) -> (r: binrw::BinResult<Self>) { unimplemented!() }
    #[verifier::external_body] fn read_be<R: io::Read + io::Seek>(data: &mut R) -> (r: binrw::BinResult<Self>) { unimplemented!() }
    #[verifier::external_body] fn read_le<R: io::Read + io::Seek>(data: &mut R) -> (r: binrw::BinResult<Self>) { unimplemented!() }
}
impl BinRead for u16 {
    open spec fn width() -> nat { 2 }
    open spec fn dec(b: Seq<u8>) -> u16 { le_u16(b) }
    #[verifier::external_body] fn read<R: io::Read + io::Seek>(data: &mut R) -> (r: binrw::BinResult<Self>) { unimplemented!() }
    #[verifier::external_body] fn read_be<R: io::Read + io::Seek>(data: &mut R) -> (r: binrw::BinResult<Self>) { unimplemented!() }
    #[verifier::external_body] fn read_le<R: io::Read + io::Seek>(data: &mut R) -> (r: binrw::BinResult<Self>) { unimplemented!() }
}
impl BinRead for i32 {
    open spec fn width() -> nat { 4 }
    open spec fn dec(b: Seq<u8>) -> i32 { be_i32(b) }
    #[verifier::external_body] fn read<R: io::Read + io::Seek>(data: &mut R) -> (r: binrw::BinResult<Self>) { unimplemented!() }
    #[verifier::external_body] fn read_be<R: io::Read + io::Seek>(data: &mut R) -> (r: binrw::BinResult<Self>) { unimplemented!() }
    #[verifier::external_body] fn read_le<R: io::Read + io::Seek>(data: &mut R) -> (r: binrw::BinResult<Self>) { unimplemented!() }
}

// derived PartialOrd on Version (V3 < V4 < V5 < V6Ddnet)
fn vx_version_ge_v5(v: Version) -> (r: bool) ensures r == (v is V5 || v is V6Ddnet),
{ match v { Version::V5 => true, Version::V6Ddnet => true, _ => false } }
fn vx_i32_assert_u8(x: i32) -> (r: u8) requires 0 <= x <= 255, ensures r == x, { x as u8 }
fn vx_u16_assert_u8(x: u16) -> (r: u8) requires x <= 255, ensures r == x, { x as u8 }

// ---- the chunk header format of doc/demo.md as a spec function ---------------------------------
spec fn kind_flag(k: DataKind) -> u8 {
    match k { DataKind::Snapshot => 0b0010_0000u8, DataKind::Message => 0b0100_0000u8, DataKind::SnapshotDelta => 0b0110_0000u8, DataKind::Unknown => 0u8 }
}
spec fn header_bytes(h: ChunkHeader) -> Seq<u8> {
    match h {
        ChunkHeader::Tick { marker: TickMarker::Delta(dt), keyframe } => seq![(0b1000_0000u8 | 0b0010_0000u8 | dt) as u8],
        ChunkHeader::Tick { marker: TickMarker::Absolute(t), keyframe } =>
            seq![(0b1000_0000u8 | (if keyframe { 0b0100_0000u8 } else { 0u8 })) as u8] + i32_be(t),
        ChunkHeader::Data { kind, size } =>
            if size < 30 { seq![(kind_flag(kind) | (size as u8)) as u8] }
            else if size <= 255 { seq![(kind_flag(kind) | 30u8) as u8, size as u8] }
            else { seq![(kind_flag(kind) | 31u8) as u8] + u16_le(size) },
    }
}
// headers the writer accepts and the reader can distinguish
spec fn writable(h: ChunkHeader) -> bool {
    match h {
        ChunkHeader::Tick { marker: TickMarker::Delta(dt), keyframe } => dt <= 31 && !keyframe,
        ChunkHeader::Tick { marker: TickMarker::Absolute(t), keyframe } => true,
        ChunkHeader::Data { kind, size } => !(kind is Unknown),
    }
}

// the documented chunk header parser (doc/demo.md, versions >= 5): (header, bytes consumed, warned)
spec fn rd_kind(f: u8) -> DataKind {
    if f & CHUNKMASK_TYPE == CHUNKTYPE_SNAPSHOT { DataKind::Snapshot }
    else if f & CHUNKMASK_TYPE == CHUNKTYPE_MESSAGE { DataKind::Message }
    else if f & CHUNKMASK_TYPE == CHUNKTYPE_SNAPSHOTDELTA { DataKind::SnapshotDelta }
    else { DataKind::Unknown }
}
spec fn rd(b: Seq<u8>) -> Option<(ChunkHeader, int, bool)> {
    if b.len() == 0 { None } else {
        let f = b[0];
        if f & CHUNKTYPEFLAG_TICKMARKER != 0 {
            let kf = f & CHUNKTICKFLAG_KEYFRAME != 0;
            if f & CHUNKTICKFLAG_INLINETICK != 0 {
                Some((ChunkHeader::Tick { marker: TickMarker::Delta(f & CHUNKTICKMASK_TICK_V5), keyframe: kf }, 1int, kf))
            } else if b.len() < 5 { None } else {
                Some((ChunkHeader::Tick { marker: TickMarker::Absolute(be_i32(b.subrange(1, 5))), keyframe: kf }, 5int,
                      f & CHUNKTICKMASK_TICK_V5 != 0))
            }
        } else {
            let kind = rd_kind(f);
            let unknown = f & CHUNKMASK_TYPE == CHUNKTYPE_UNKNOWN;
            let s = f & CHUNKMASK_SIZE;
            if s == CHUNKSIZE_ONEBYTEFOLLOWS {
                if b.len() < 2 { None } else { Some((ChunkHeader::Data { kind, size: b[1] as u16 }, 2int, unknown || b[1] < 30)) }
            } else if s == CHUNKSIZE_TWOBYTESFOLLOW {
                if b.len() < 3 { None } else { Some((ChunkHeader::Data { kind, size: le_u16(b.subrange(1, 3)) }, 3int, unknown || le_u16(b.subrange(1, 3)) < 255)) }
            } else {
                Some((ChunkHeader::Data { kind, size: s as u16 }, 1int, unknown))
            }
        }
    }
}
