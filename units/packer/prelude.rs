mod slice { pub use core::slice::Iter; }
impl<'a> Unpacker<'a> {
    // the bytes not yet consumed
    #[verifier::prophetic]
    spec fn rest(&self) -> Seq<u8> { Seq::new(self.iter.remaining().len(), |i: int| *self.iter.remaining()[i]) }
    // the unconsumed part is a suffix of the original input (nothing past `original` is ever referenced)
    #[verifier::prophetic]
    spec fn wf(&self) -> bool { self.rest().len() <= self.original@.len() }
}
#[verifier::external_body]
fn vx_iter_as_slice<'a>(it: &core::slice::Iter<'a, u8>) -> (r: &'a [u8])
    ensures r@.len() == it.remaining().len(), r@.len() <= usize::MAX, forall|i: int| 0 <= i < r@.len() ==> r@[i] == *it.remaining()[i],
{ it.as_slice() }
#[verifier::external_body]
fn vx_iter_len(it: &core::slice::Iter<u8>) -> (r: usize) ensures r == it.remaining().len(), { it.len() }
#[verifier::external_body]
fn vx_drain(it: &mut core::slice::Iter<u8>) ensures (*final(it)).remaining().len() == 0, { let _ = it.by_ref().count(); }
// `iter.by_ref().cloned().enumerate()` stepped by hand: one `next()` of the underlying slice iterator plus the running index
// (verified here; stands for the semantics of core's Cloned/Enumerate adapters, which this Verus cannot take)
fn vx_enum_next<'a>(iter: &mut core::slice::Iter<'a, u8>, n: &mut usize) -> (r: Option<(usize, u8)>)
    requires *old(n) + (*old(iter)).remaining().len() <= usize::MAX,
    ensures
        match r {
            Some((i, b)) => i == *old(n) && *final(n) == i + 1 && (*old(iter)).remaining().len() > 0
                && b == *(*old(iter)).remaining()[0] && (*final(iter)).remaining() == (*old(iter)).remaining().skip(1),
            None => (*old(iter)).remaining().len() == 0 && (*final(iter)).remaining().len() == 0 && *final(n) == *old(n),
        },
{
    match iter.next() {
        Some(b) => { let i = *n; *n = *n + 1; Some((i, *b)) }
        None => None,
    }
}
// the bytes an iterator over bytes has not yet yielded
#[verifier::prophetic]
spec fn it_rest(it: &core::slice::Iter<u8>) -> Seq<u8> { Seq::new(it.remaining().len(), |i: int| *it.remaining()[i]) }
// position of the first NUL (s.len() if there is none)
spec fn first_nul(s: Seq<u8>) -> int decreases s.len() {
    if s.len() == 0 { 0 } else if s[0] == 0 { 0 } else { 1 + first_nul(s.skip(1)) }
}
proof fn lemma_first_nul(s: Seq<u8>, p: int)
    requires 0 <= p <= s.len(), forall|j: int| 0 <= j < p ==> s[j] != 0, p == s.len() || s[p] == 0,
    ensures first_nul(s) == p,
    decreases s.len(),
{
    if s.len() == 0 || s[0] == 0 { } else {
        assert forall|j: int| 0 <= j < p - 1 implies s.skip(1)[j] != 0 by { assert(s.skip(1)[j] == s[j + 1]); }
        lemma_first_nul(s.skip(1), p - 1);
    }
}
proof fn lemma_first_nul_is(s: Seq<u8>)
    requires first_nul(s) < s.len(),
    ensures s[first_nul(s)] == 0, forall|j: int| 0 <= j < first_nul(s) ==> s[j] != 0, 0 <= first_nul(s),
    decreases s.len(),
{
    if s.len() == 0 || s[0] == 0 { } else {
        lemma_first_nul_is(s.skip(1));
        assert forall|j: int| 0 <= j < first_nul(s) implies s[j] != 0 by { if j > 0 { assert(s.skip(1)[j - 1] == s[j]); } }
    }
}
proof fn lemma_first_nul_none(s: Seq<u8>)
    requires first_nul(s) >= s.len(),
    ensures first_nul(s) == s.len(), forall|j: int| 0 <= j < s.len() ==> s[j] != 0,
    decreases s.len(),
{
    if s.len() == 0 { } else if s[0] == 0 { } else {
        lemma_first_nul_none(s.skip(1));
        assert forall|j: int| 0 <= j < s.len() implies s[j] != 0 by { if j > 0 { assert(s.skip(1)[j - 1] == s[j]); } }
    }
}
// X.iter().any(|&b| b < v)  ->  !vx_all_ge(X, v)   (verified loop)
pub fn vx_all_ge(s: &[u8], v: u8) -> (r: bool)
    ensures r == (forall|i: int| 0 <= i < s@.len() ==> s@[i] >= v),
{
    let mut i: usize = 0;
    while i < s.len()
        invariant i <= s@.len(), forall|j: int| 0 <= j < i ==> s@[j] >= v,
        decreases s@.len() - i,
    {
        if s[i] < v { return false; }
        i += 1;
    }
    true
}
impl<'a> IntUnpacker<'a> {
    #[verifier::prophetic]
    spec fn rest(&self) -> Seq<i32> { Seq::new(self.iter.remaining().len(), |i: int| *self.iter.remaining()[i]) }
}
#[verifier::external_body]
fn vx_iter32_as_slice<'a>(it: &core::slice::Iter<'a, i32>) -> (r: &'a [i32])
    ensures r@.len() == it.remaining().len(), forall|i: int| 0 <= i < r@.len() ==> r@[i] == *it.remaining()[i],
{ it.as_slice() }
#[verifier::external_body]
fn vx_iter32_len(it: &core::slice::Iter<i32>) -> (r: usize) ensures r == it.remaining().len(), { it.len() }
#[verifier::external_body]
fn vx_drain32(it: &mut core::slice::Iter<i32>) ensures (*final(it)).remaining().len() == 0, { let _ = it.by_ref().count(); }
// Option<&i32>::copied (no vstd specification)
fn vx_copied(o: Option<&i32>) -> (r: Option<i32>)
    ensures r is Some <==> o is Some, o is Some ==> r->Some_0 == *o->Some_0,
{ match o { Some(x) => Some(*x), None => None } }

// ---- string_to_ints ----------------------------------------------------------------------------------------------------------------
#[verifier::external_body]
fn vx_itermut_len(it: &core::slice::IterMut<i32>) -> (r: usize) ensures r == it.remaining().len(), { it.len() }
fn vx_size_of_i32() -> (r: usize) ensures r == 4, { 4 }
// byte j of the zero-padded string
spec fn sbyte(s: Seq<u8>, j: int) -> u8 { if 0 <= j < s.len() { s[j] } else { 0u8 } }
spec fn wadd80(b: u8) -> u8 { if b >= 0x80 { (b - 0x80) as u8 } else { (b + 0x80) as u8 } }
// word i of the integer form of `s` in a field of n words
spec fn sword(s: Seq<u8>, i: int, n: int) -> i32 {
    let v0 = wadd80(sbyte(s, 4 * i));
    let v1 = wadd80(sbyte(s, 4 * i + 1));
    let v2 = wadd80(sbyte(s, 4 * i + 2));
    let v3 = if 4 * i + 3 < s.len() { wadd80(s[4 * i + 3]) } else if i == n - 1 { 0u8 } else { 0x80u8 };
    (v0 as i32) << 24 | (v1 as i32) << 16 | (v2 as i32) << 8 | (v3 as i32)
}
