use vstd::std_specs::iter::IteratorSpec;
mod slice { pub use core::slice::Iter; }
impl<'a> Unpacker<'a> {
    // the bytes not yet consumed
    #[verifier::prophetic]
    spec fn rest(&self) -> Seq<u8> { Seq::new(self.iter.remaining().len(), |i: int| *self.iter.remaining()[i]) }
    // the unconsumed part is a suffix of the original input (nothing past `original` is ever referenced)
    #[verifier::prophetic]
    spec fn wf(&self) -> bool { self.rest().len() <= self.original@.len() }
}
#[verifier::external_body]
fn vx_iter_as_slice<'a>(it: &core::slice::Iter<'a, u8>) -> (r: &'a [u8])
    ensures r@.len() == it.remaining().len(), forall|i: int| 0 <= i < r@.len() ==> r@[i] == *it.remaining()[i],
{ it.as_slice() }
#[verifier::external_body]
fn vx_iter_len(it: &core::slice::Iter<u8>) -> (r: usize) ensures r == it.remaining().len(), { it.len() }
#[verifier::external_body]
fn vx_drain(it: &mut core::slice::Iter<u8>) ensures (*final(it)).remaining().len() == 0, { let _ = it.by_ref().count(); }
