// Round trip of a NUL-terminated string over the two contracts: the writer (string_to_bytes_buffer_ref, and Packer::write_string
// which emits the same bytes through BufferRef::write) produces s ++ [0]; read_string on s ++ [0] ++ rest returns exactly s and
// leaves exactly rest -- for every NUL-free s and every rest, of any length.
proof fn lemma_string_roundtrip(s: Seq<u8>, rest: Seq<u8>)
    requires forall|i: int| 0 <= i < s.len() ==> s[i] != 0,
    ensures ({
        let w = s + seq![0u8] + rest;
        &&& first_nul(w) == s.len()
        &&& first_nul(w) < w.len()
        &&& w.subrange(0, first_nul(w)) =~= s
        &&& w.subrange(first_nul(w) + 1, w.len() as int) =~= rest
    }),
{
    let w = s + seq![0u8] + rest;
    assert(w[s.len() as int] == 0);
    assert forall|j: int| 0 <= j < s.len() implies w[j] != 0 by { assert(w[j] == s[j]); }
    lemma_first_nul(w, s.len() as int);
}
