pub struct MapItemLayerV1TilemapV2;
pub struct MapItemLayerV1TilemapV3;
impl MapItemLayerV1TilemapV2 { #[verifier::external_body] fn sum_len() -> (r: usize) ensures r == 12, { unimplemented!() } }
impl MapItemLayerV1TilemapV3 { #[verifier::external_body] fn sum_len() -> (r: usize) ensures r == 15, { unimplemented!() } }
mod slice {
    use vstd::prelude::*;
    use super::MapItemLayerV1TilemapExtraRace;
    #[verifier::external_body]
    pub unsafe fn transmute<'a>(x: &'a [i32]) -> (r: &'a [MapItemLayerV1TilemapExtraRace])
        ensures r@.len() == x@.len(), forall|j: int| 0 <= j < x@.len() ==> r@[j].data == x@[j],
    { unimplemented!() }
}
// doc/map.md: the extra data index of a race layer follows the tilemap part (12 ints in version 2, 15 in version 3),
// one slot per race layer kind in the order teleport, speedup, front, switch, tune
spec fn race_offset(version: i32, flags: u32) -> Option<usize> {
    let base: Option<usize> = if version == 2 { Some(12usize) } else if version == 3 { Some(15usize) } else { None };
    let slot: Option<usize> = if flags == 2 { Some(0usize) } else if flags == 4 { Some(1usize) } else if flags == 8 { Some(2usize) }
        else if flags == 16 { Some(3usize) } else if flags == 32 { Some(4usize) } else { None };
    if base is Some && slot is Some { Some((base->Some_0 + slot->Some_0) as usize) } else { None }
}
