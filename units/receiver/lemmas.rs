// ==== C12 at the level of the property statement: a transfer fed part by part, in ANY order and with ANY duplication ===============
// The functions below are verified exec harnesses over the CONTRACT of DeltaReceiver::snap (its body is verified above): they only
// compose postconditions, they are not part of the library.

// (same text as units/snap_parts/prelude.rs: how delta_chunks cuts the data -- its contract says part k carries part_bytes(data, k))
spec fn num_parts_of(len: nat) -> int { (len as int + 899) / 900 }
spec fn part_bytes(data: Seq<u8>, k: int) -> Seq<u8> {
    data.subrange(900 * k, if 900 * (k + 1) <= data.len() { 900 * (k + 1) } else { data.len() as int })
}
spec fn concat_parts(data: Seq<u8>, n: int) -> Seq<u8>
    decreases n
{
    if n <= 0 { Seq::empty() } else { concat_parts(data, n - 1) + part_bytes(data, n - 1) }
}
proof fn lemma_concat_prefix(data: Seq<u8>, n: int)
    requires 0 <= n <= num_parts_of(data.len()),
    ensures concat_parts(data, n) =~= data.subrange(0, if 900 * n <= data.len() { 900 * n } else { data.len() as int }),
    decreases n
{
    if n > 0 { lemma_concat_prefix(data, n - 1); }
}

// a multi-part transfer of `data` for `tick` is in progress and exactly the parts in `seen` have arrived, each stored unaltered
spec fn transfer_inv(st: DeltaReceiver, tick: i32, base: i32, crc: i32, data: Seq<u8>, seen: Set<usize>) -> bool {
    let n = num_parts_of(data.len());
    &&& st.wf()
    &&& st.current == Some(CurrentDelta { tick, delta_tick: base, num_parts: n as i32, crc })
    &&& st.parts@.dom() == seen
    &&& forall|k: usize| seen.contains(k) ==> (k as int) < n
            && (#[trigger] st.parts@[k]).start <= st.parts@[k].end && st.parts@[k].end <= st.receive_buf@.len()
            && st.receive_buf@.subrange(st.parts@[k].start as int, st.parts@[k].end as int) == part_bytes(data, k as int)
}
// with every part 0..n present (and none beyond), the parts in index order are the data
proof fn lemma_concat_values_is_data(parts: Map<usize, ops::Range<u32>>, buf: Seq<u8>, data: Seq<u8>, m: int)
    requires
        0 <= m <= 32,
        forall|k: usize| parts.dom().contains(k) <==> (k as int) < num_parts_of(data.len()),
        forall|k: usize| parts.dom().contains(k) ==> buf.subrange(parts[k].start as int, parts[k].end as int) == part_bytes(data, k as int),
    ensures concat_values(parts, buf, m) == concat_parts(data, if m <= num_parts_of(data.len()) { m } else { num_parts_of(data.len()) }),
    decreases m
{
    if m > 0 {
        lemma_concat_values_is_data(parts, buf, data, m - 1);
        let n = num_parts_of(data.len());
        if m > n { assert(!parts.dom().contains((m - 1) as usize)); } else { assert(parts.dom().contains((m - 1) as usize)); }
    }
}

// ONE STEP: part k of the transfer arrives (for the first time or again)
fn vx_feed_part<W: Warn<Warning>>(
    r: &mut DeltaReceiver, warn: &mut W, tick: i32, wire_delta: i32, crc: i32, data: &[u8], k: usize,
    Ghost(seen): Ghost<Set<usize>>, Ghost(started): Ghost<bool>,
) -> (res: (bool, Ghost<Seq<u8>>))
    requires
        2 <= num_parts_of(data@.len()) <= 32, (k as int) < num_parts_of(data@.len()),
        (*old(r)).wf(),
        started ==> transfer_inv(*old(r), tick, wsub(tick, wire_delta), crc, data@, seen),
        !started ==> seen == Set::<usize>::empty() && can_receive_spec(*old(r), tick)
            && !((*old(r)).current is Some && (*old(r)).current->Some_0.tick == tick),
    ensures
        (*final(warn)).count() == (*old(warn)).count(),
        // a repeated part is refused and changes nothing
        seen.contains(k) ==> !res.0 && *final(r) == *old(r),
        // a new part that does not complete the transfer is stored, nothing is handed out
        !seen.contains(k) && seen.insert(k) != below(num_parts_of(data@.len()) as nat)
            ==> !res.0 && transfer_inv(*final(r), tick, wsub(tick, wire_delta), crc, data@, seen.insert(k)),
        // the part that completes it hands out exactly the original data, with tick, base tick and checksum; the tick is then closed
        !seen.contains(k) && seen.insert(k) == below(num_parts_of(data@.len()) as nat)
            ==> res.0 && res.1@ == data@ && (*final(r)).wf() && (*final(r)).current is None && (*final(r)).previous_tick == Some(tick),
{
    let ghost n = num_parts_of(data@.len());
    let len = data.len();
    let lo = 900 * k;
    let hi = if 900 * (k + 1) <= len { 900 * (k + 1) } else { len };
    let msg = Snap { tick, delta_tick: wire_delta, num_parts: ((len + 899) / 900) as i32, part: k as i32, crc, data: vstd::slice::slice_subrange(data, lo, hi) };
    proof {
        assert(msg.data@ == part_bytes(data@, k as int));
        lemma_below(n as nat);
        if started { assert(can_receive_spec(*r, tick)); }
    }
    let ghost o = *r;
    let res = r.snap(warn, msg);
    match res {
        Err(_) => {
            (false, Ghost(Seq::empty()))
        }
        Ok(None) => {
            proof {
                let before = if started { o.parts@ } else { Map::<usize, ops::Range<u32>>::empty() };
                let buf_before = if started { o.receive_buf@ } else { Seq::<u8>::empty() };
                let s1 = seen.insert(k);
                assert(before.dom() =~= seen);
                assert(r.parts@.dom() =~= s1);
                assert forall|j: usize| s1.contains(j) implies below(n as nat).contains(j) by {
                    if j != k { assert(seen.contains(j)); let t = o.parts@[j]; assert((j as int) < n); } else { assert((k as nat) < (n as nat)); }
                }
                assert(s1.subset_of(below(n as nat)));
                if s1 == below(n as nat) { assert(false); }
                assert forall|j: usize| s1.contains(j) implies (j as int) < n
                    && (#[trigger] r.parts@[j]).start <= r.parts@[j].end && r.parts@[j].end <= r.receive_buf@.len()
                    && r.receive_buf@.subrange(r.parts@[j].start as int, r.parts@[j].end as int) == part_bytes(data@, j as int) by {
                    if j == k {
                        assert(r.receive_buf@.subrange(buf_before.len() as int, (buf_before.len() + msg.data@.len()) as int) =~= msg.data@);
                    } else {
                        assert(r.receive_buf@.subrange(before[j].start as int, before[j].end as int)
                            =~= buf_before.subrange(before[j].start as int, before[j].end as int));
                    }
                }
            }
            (false, Ghost(Seq::empty()))
        }
        Ok(Some(d)) => {
            let ghost out = d.data_and_crc.unwrap().0@;
            proof {
                let before = if started { o.parts@ } else { Map::<usize, ops::Range<u32>>::empty() };
                let buf_before = if started { o.receive_buf@ } else { Seq::<u8>::empty() };
                let s1 = seen.insert(k);
                let parts1 = before.insert(k, (buf_before.len() as u32)..((buf_before.len() + msg.data@.len()) as u32));
                let buf1 = buf_before + msg.data@;
                assert(before.dom() =~= seen);
                assert(parts1.dom() =~= s1);
                assert forall|j: usize| s1.contains(j) implies below(n as nat).contains(j) by {
                    if j != k { assert(seen.contains(j)); let t = o.parts@[j]; assert((j as int) < n); } else { assert((k as nat) < (n as nat)); }
                }
                assert(s1.subset_of(below(n as nat)));
                vstd::set_lib::lemma_subset_equality(s1, below(n as nat));
                assert forall|j: usize| parts1.dom().contains(j) implies
                    buf1.subrange(parts1[j].start as int, parts1[j].end as int) == part_bytes(data@, j as int) by {
                    if j == k {
                        assert(buf1.subrange(buf_before.len() as int, (buf_before.len() + msg.data@.len()) as int) =~= msg.data@);
                    } else {
                        assert(buf1.subrange(before[j].start as int, before[j].end as int)
                            =~= buf_before.subrange(before[j].start as int, before[j].end as int));
                    }
                }
                lemma_concat_values_is_data(parts1, buf1, data@, 32);
                lemma_concat_prefix(data@, n);
                assert(out == data@);
            }
            (true, Ghost(out))
        }
    }
}

// the indices that occur among the first i entries of `order`
spec fn seen_upto(order: Seq<usize>, i: int) -> Set<usize>
    decreases i
{
    if i <= 0 { Set::empty() } else { seen_upto(order, i - 1).insert(order[i - 1]) }
}
proof fn lemma_seen(order: Seq<usize>, i: int)
    requires 0 <= i <= order.len(),
    ensures forall|k: usize| seen_upto(order, i).contains(k) <==> (exists|j: int| 0 <= j < i && order[j] == k),
    decreases i
{
    if i > 0 {
        lemma_seen(order, i - 1);
        assert forall|k: usize| seen_upto(order, i).contains(k) <==> (exists|j: int| 0 <= j < i && order[j] == k) by {
            if seen_upto(order, i - 1).contains(k) {
                let j = choose|j: int| 0 <= j < i - 1 && order[j] == k;
                assert(0 <= j < i && order[j] == k);
            }
            if order[i - 1] == k { assert(0 <= i - 1 < i && order[i - 1] == k); }
            if exists|j: int| 0 <= j < i && order[j] == k {
                let j = choose|j: int| 0 <= j < i && order[j] == k;
                if j < i - 1 { assert(seen_upto(order, i - 1).contains(k)); }
            }
        }
    }
}

// THE PROPERTY for one tick: the parts of `data` (as delta_chunks cuts them) fed in ANY order, with ANY repetition, to a receiver that
// can still receive this tick: the original data is handed out exactly once if every part occurs, never otherwise; no warning; parts
// that arrive after completion are refused without effect.
fn vx_transfer<W: Warn<Warning>>(
    r: &mut DeltaReceiver, warn: &mut W, tick: i32, wire_delta: i32, crc: i32, data: &[u8], order: &Vec<usize>,
) -> (res: (usize, Ghost<Seq<u8>>))
    requires
        2 <= num_parts_of(data@.len()) <= 32,
        forall|i: int| 0 <= i < order@.len() ==> (order@[i] as int) < num_parts_of(data@.len()),
        (*old(r)).wf(), can_receive_spec(*old(r), tick),
        !((*old(r)).current is Some && (*old(r)).current->Some_0.tick == tick),
    ensures
        (*final(warn)).count() == (*old(warn)).count(),
        res.0 <= 1,
        res.0 == 1 <==> (forall|k: usize| (k as int) < num_parts_of(data@.len()) ==> order@.contains(k)),
        res.0 == 1 ==> res.1@ == data@ && (*final(r)).current is None && (*final(r)).previous_tick == Some(tick),
{
    let ghost n = num_parts_of(data@.len());
    let mut count: usize = 0;
    let mut out: Ghost<Seq<u8>> = Ghost(Seq::empty());
    let mut i: usize = 0;
    proof { lemma_below(n as nat); }
    while i < order.len()
        invariant
            i <= order@.len(), count <= 1, n == num_parts_of(data@.len()), 2 <= n <= 32,
            forall|j: int| 0 <= j < order@.len() ==> (order@[j] as int) < n,
            warn.count() == (*old(warn)).count(),
            r.wf(),
            count == 0 ==> seen_upto(order@, i as int) != below(n as nat),
            count == 0 && seen_upto(order@, i as int) != Set::<usize>::empty()
                ==> transfer_inv(*r, tick, wsub(tick, wire_delta), crc, data@, seen_upto(order@, i as int)),
            count == 0 && seen_upto(order@, i as int) == Set::<usize>::empty()
                ==> can_receive_spec(*r, tick) && !(r.current is Some && r.current->Some_0.tick == tick),
            count == 1 ==> seen_upto(order@, i as int) == below(n as nat) && out@ == data@ && r.current is None && r.previous_tick == Some(tick),
        decreases order@.len() - i,
    {
        let k = order[i];
        let ghost seen = seen_upto(order@, i as int);
        proof {
            assert(seen_upto(order@, i as int + 1) == seen.insert(k));
            lemma_below(n as nat);
        }
        if count == 0 {
            let ghost started = seen != Set::<usize>::empty();
            let step = vx_feed_part(r, warn, tick, wire_delta, crc, data, k, Ghost(seen), Ghost(started));
            if step.0 {
                count = 1;
                out = step.1;
            }
            proof {
                if seen.contains(k) { assert(seen.insert(k) =~= seen); }
                assert(seen.insert(k).contains(k));
            }
        } else {
            // late part: the tick is closed, the part is refused and nothing changes
            let len = data.len();
            let lo = 900 * k;
            let hi = if 900 * (k + 1) <= len { 900 * (k + 1) } else { len };
            let msg = Snap { tick, delta_tick: wire_delta, num_parts: ((len + 899) / 900) as i32, part: k as i32, crc, data: vstd::slice::slice_subrange(data, lo, hi) };
            let ghost o = *r;
            let late = r.snap(warn, msg);
            assert(late is Err);
            proof {
                assert(*r == o);
                assert(seen.insert(k) =~= seen) by { assert(below(n as nat).contains(k)); }
            }
        }
        i += 1;
    }
    proof {
        let fin = seen_upto(order@, order@.len() as int);
        lemma_seen(order@, order@.len() as int);
        if count == 1 {
            assert forall|k: usize| (k as int) < n implies order@.contains(k) by {
                assert(below(n as nat).contains(k));
                let j = choose|j: int| 0 <= j < order@.len() && order@[j] == k;
            }
        } else {
            if forall|k: usize| (k as int) < n ==> order@.contains(k) {
                assert forall|k: usize| below(n as nat).contains(k) implies fin.contains(k) by {
                    assert(order@.contains(k));
                    let j = choose|j: int| 0 <= j < order@.len() && order@[j] == k;
                }
                assert forall|k: usize| fin.contains(k) implies below(n as nat).contains(k) by {
                    let j = choose|j: int| 0 <= j < order@.len() && order@[j] == k;
                }
                assert(fin =~= below(n as nat));
            }
        }
    }
    (count, out)
}
