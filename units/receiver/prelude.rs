mod msg { pub use super::{Snap, SnapEmpty, SnapSingle}; }
mod ops { pub use core::ops::Range; }
spec fn wrap32(x: int) -> i32 {
    if x > 0x7fff_ffff { (x - 0x1_0000_0000) as i32 } else if x < -0x8000_0000 { (x + 0x1_0000_0000) as i32 } else { x as i32 }
}
spec fn wsub(a: i32, b: i32) -> i32 { wrap32(a - b) }

// ---- vec_map::VecMap by contract ----------------------------------------------------------------
#[verifier::external_body]
#[verifier::reject_recursive_types(V)]
pub struct VecMap<V> { _p: core::marker::PhantomData<V> }
impl<V> VecMap<V> {
    pub uninterp spec fn view(&self) -> Map<usize, V>;
    #[verifier::external_body]
    pub fn clear(&mut self) ensures (*final(self))@ == Map::<usize, V>::empty(), { unimplemented!() }
    #[verifier::external_body]
    pub fn reserve_len(&mut self, len: usize) ensures (*final(self))@ == (*old(self))@, { unimplemented!() }
    #[verifier::external_body]
    pub fn contains_key(&self, key: usize) -> (r: bool) ensures r == self@.dom().contains(key), { unimplemented!() }
    #[verifier::external_body]
    pub fn insert(&mut self, key: usize, value: V) -> (r: Option<V>)
        ensures (*final(self))@ == (*old(self))@.insert(key, value),
            r is Some <==> (*old(self))@.dom().contains(key),
    { unimplemented!() }
    #[verifier::external_body]
    pub fn len(&self) -> (r: usize) ensures r == self@.dom().len(), { unimplemented!() }
}

spec fn can_receive_spec(s: DeltaReceiver, tick: i32) -> bool {
    match s.current {
        Some(c) => c.tick <= tick,
        None => match s.previous_tick { Some(t) => t < tick, None => true },
    }
}
impl DeltaReceiver {
    spec fn wf(&self) -> bool {
        &&& self.parts@.dom().len() <= 32
        &&& self.receive_buf@.len() <= self.parts@.dom().len() * 0xffff
        &&& (forall|k: usize| self.parts@.dom().contains(k) ==> k < 32)
        // while a multi-part transfer is in progress nothing has been assembled yet
        &&& (self.current is Some ==> self.result@.len() == 0)
    }
}
// bytes of the parts 0..n (those present) in index order
spec fn concat_values(parts: Map<usize, ops::Range<u32>>, buf: Seq<u8>, n: int) -> Seq<u8>
    decreases n
{
    if n <= 0 { Seq::empty() } else {
        let k = (n - 1) as usize;
        concat_values(parts, buf, n - 1) + (if parts.dom().contains(k) { buf.subrange(parts[k].start as int, parts[k].end as int) } else { Seq::empty() })
    }
}
// `for range in self.parts.values() { self.result.extend(&self.receive_buf[to_usize(range.clone())]); }`
#[verifier::external_body]
fn vx_concat_values(parts: &VecMap<ops::Range<u32>>, buf: &Vec<u8>, result: &mut Vec<u8>)
    ensures (*final(result))@ == (*old(result))@ + concat_values(parts@, buf@, 32),
{ unimplemented!() }
#[verifier::external_body]
fn vx_extend(v: &mut Vec<u8>, s: &[u8]) ensures (*final(v))@ == (*old(v))@ + s@, { unimplemented!() }
fn vx_i32_assert_usize(x: i32) -> (r: usize) requires x >= 0, ensures r == x, { x as usize }
fn vx_usize_assert_u32(x: usize) -> (r: u32) requires x <= 0xffff_ffff, ensures r == x, { x as u32 }
fn vx_usize_assert_i32(x: usize) -> (r: i32) requires x <= 0x7fff_ffff, ensures r == x, { x as i32 }
// core::option::Option::or (no vstd spec in this build; std semantics assumed)
pub assume_specification<T>[core::option::Option::<T>::or](a: Option<T>, b: Option<T>) -> (o: Option<T>)
    ensures o == (match a { Some(x) => Some(x), None => b }),
;

// the set of indices below n has exactly n elements; a set of indices all below n has at most n
spec fn below(n: nat) -> Set<usize>
    decreases n
{
    if n == 0 { Set::empty() } else { below((n - 1) as nat).insert((n - 1) as usize) }
}
proof fn lemma_below(n: nat)
    requires n <= 0xffff,
    ensures below(n).len() == n, forall|k: usize| below(n).contains(k) <==> (k as nat) < n,
    decreases n
{
    if n > 0 {
        lemma_below((n - 1) as nat);
    }
}
proof fn lemma_bounded_dom_len(s: Set<usize>, n: nat)
    requires n <= 0xffff, forall|k: usize| s.contains(k) ==> (k as nat) < n,
    ensures s.len() <= n,
{
    lemma_below(n);
    assert(s.subset_of(below(n)));
    vstd::set_lib::lemma_len_subset(s, below(n));
}
