// macro_rules of /repo/common/src/macros.rs is extracted below (outside verus!)
