use vstd::std_specs::iter::IteratorSpec;

pub trait Warn<W> {
    spec fn count(&self) -> nat;
    fn warn(&mut self, warning: W)
        ensures final(self).count() == old(self).count() + 1;
}
mod slice { pub use core::slice::Iter; }
