// ---- unit net_ep: net::Net (C20) -- the multi-peer endpoint's own logic ------------------------------------------------
// Connection, Packet::read, the peer map (LinearMap behind raw pointers) and Peers::new_peer (raw-pointer loop) are by
// contract; what is proved is Net's dispatch: which peer a datagram or a call reaches, which peers stay untouched,
// when a peer is created and when it is gone.
use std::hash::Hash;
use std::fmt;
mod connection {
    pub use super::{ConnWarning as Warning, ReceiveChunk, ConnReceivePacket as ReceivePacket, ConnCallback as Callback};
}
pub trait ConnCallback {
    type Error;
    fn secure_random(&mut self, buffer: &mut [u8]);
    fn send(&mut self, data: &[u8]) -> Result<(), Self::Error>;
    fn time(&mut self) -> Timestamp;
}
pub enum Error<CE> { TooLongData, Callback(CE) }
mod protocol {
    pub use super::{ConnectedPacket, ConnectedPacketType, ControlPacket, Packet};
}
pub enum ConnWarning { Read(ReadError), Unexpected, Other }
#[verifier::external_body]
pub struct Timestamp { _p: () }
#[verifier::external_body]
#[derive(Clone, Copy)]
pub struct Token { _p: () }

// ---- packets as far as Net looks at them ----
pub enum ControlPacket { KeepAlive, Connect, ConnectAccept, Accept, Close }
pub enum ConnectedPacketType { Chunks, Control(ControlPacket) }
pub struct ConnectedPacket { pub token: Option<Token>, pub type_: ConnectedPacketType }
pub enum Packet<'a> { Connless(&'a [u8]), Connected(ConnectedPacket) }
pub uninterp spec fn spec_parse(data: Seq<u8>) -> Option<Packet<'static>>;
pub struct ReadError;

// ---- one connection, abstract ----
#[verifier::external_body]
pub struct Connection { _p: () }
pub enum ReceiveChunk<'a> { Connless(&'a [u8]), Connected(&'a [u8], bool), Ready, Disconnect(&'a [u8]) }
#[verifier::external_body]
pub struct ConnReceivePacket<'a> { _p: core::marker::PhantomData<&'a ()> }
impl<'a> ConnReceivePacket<'a> {
    /// does the packet carry a disconnect event
    pub uninterp spec fn has_disconnect(&self) -> bool;
}
impl Connection {
    pub uninterp spec fn unconnected(&self) -> bool;
    #[verifier::external_body]
    pub fn new() -> (r: Connection) ensures r.unconnected(), { unimplemented!() }
    #[verifier::external_body]
    pub fn is_unconnected(&self) -> (r: bool) ensures r == self.unconnected(), { unimplemented!() }
}

// ---- addresses and the callback (ghost log of (address, datagram)) ----
pub trait Address: Copy {}
pub trait Callback<A: Address> {
    type Error;
    fn secure_random(&mut self, buffer: &mut [u8]) ensures (*final(self)).sent() == (*old(self)).sent();
    spec fn sent(&self) -> Seq<(A, Seq<u8>)>;
    fn send(&mut self, addr: A, data: &[u8]) -> (r: Result<(), Self::Error>)
        ensures (*final(self)).sent() == (*old(self)).sent().push((addr, data@));
    fn time(&mut self) -> (r: Timestamp) ensures (*final(self)).sent() == (*old(self)).sent();
}
/// every datagram recorded after `from` went to `addr`
pub open spec fn only_to<A: Address>(before: Seq<(A, Seq<u8>)>, after: Seq<(A, Seq<u8>)>, addr: A) -> bool {
    before.len() <= after.len() && after.take(before.len() as int) == before
        && forall|i: int| before.len() <= i < after.len() ==> (#[trigger] after[i]).0 == addr
}

// ---- the peer map (net/src/collections/peer_map.rs: LinearMap + raw pointers) by contract ----
#[verifier::external_body]
#[verifier::reject_recursive_types(T)]
pub struct PeerMap<T> { _p: core::marker::PhantomData<T> }
impl<T> PeerMap<T> {
    pub uninterp spec fn view(&self) -> Map<PeerId, T>;
    #[verifier::external_body]
    pub fn remove(&mut self, pid: PeerId)
        requires (*old(self))@.dom().contains(pid),
        ensures (*final(self))@ == (*old(self))@.remove(pid),
    { unimplemented!() }
    #[verifier::external_body]
    pub fn get(&self, pid: PeerId) -> (r: Option<&T>)
        ensures r is Some <==> self@.dom().contains(pid), r is Some ==> *(r->Some_0) == self@[pid],
    { unimplemented!() }
    #[verifier::external_body]
    pub fn get_mut(&mut self, pid: PeerId) -> (r: Option<&mut T>)
        ensures
            r is Some <==> (*old(self))@.dom().contains(pid),
            r is Some ==> *(r->Some_0) == (*old(self))@[pid] && (*final(self))@ == (*old(self))@.insert(pid, *final(r->Some_0)),
            r is None ==> (*final(self))@ == (*old(self))@,
    { unimplemented!() }
}

// Peers::new_peer (raw-pointer loop over the entry API): a fresh id, the new peer is unconnected
impl<A: Address> Peers<A> {
    #[verifier::external_body]
    fn new_peer(&mut self, addr: A, token: bool) -> (r: (PeerId, &mut Peer<A>))
        ensures
            !(*old(self)).peers@.dom().contains(r.0),
            (*r.1).addr == addr && (*r.1).token == token && (*r.1).conn.unconnected(),
            (*final(self)).peers@ == (*old(self)).peers@.insert(r.0, *final(r.1)),
    { unimplemented!() }
    // `for (pid, p) in self.peers.iter() { if p.addr == addr { return Some(pid); } } None`
    // (== on addresses is the derived structural equality of the address type)
    #[verifier::external_body]
    fn pid_from_addr(&mut self, addr: A) -> (r: Option<PeerId>)
        ensures
            (*final(self)).peers@ == (*old(self)).peers@,
            r is Some ==> (*old(self)).peers@.dom().contains(r->Some_0) && (*old(self)).peers@[r->Some_0].addr == addr,
            r is None ==> forall|p: PeerId| (*old(self)).peers@.dom().contains(p) ==> (*old(self)).peers@[p].addr != addr,
    { unimplemented!() }
}
// `&mut self.peers[pid]` / `self.peers[pid]` (ops::IndexMut for Peers: get_mut(pid).unwrap_or_else(|| panic!("invalid pid")))
fn vx_peer_mut<A: Address>(peers: &mut Peers<A>, pid: PeerId) -> (r: &mut Peer<A>)
    requires (*old(peers)).peers@.dom().contains(pid),
    ensures *r == (*old(peers)).peers@[pid], (*final(peers)).peers@ == (*old(peers)).peers@.insert(pid, *final(r)),
        (*final(peers)).next_peer_id == (*old(peers)).next_peer_id,
{
    peers.peers.get_mut(pid).unwrap()
}
// connection calls as far as Net is concerned: they act on that one connection and send through the callback given
impl Connection {
    #[verifier::external_body]
    pub fn connect<CB: ConnCallback>(&mut self, cb: &mut CB) -> (r: Result<(), CB::Error>) { unimplemented!() }
    #[verifier::external_body]
    pub fn disconnect<CB: ConnCallback>(&mut self, cb: &mut CB, reason: &[u8]) -> (r: Result<(), CB::Error>) { unimplemented!() }
    #[verifier::external_body]
    pub fn send<CB: ConnCallback>(&mut self, cb: &mut CB, buffer: &[u8], vital: bool) -> (r: Result<(), Error<CB::Error>>) { unimplemented!() }
    #[verifier::external_body]
    pub fn flush<CB: ConnCallback>(&mut self, cb: &mut CB) -> (r: Result<(), CB::Error>) { unimplemented!() }
}
pub struct Chunk<'a> { pub pid: PeerId, pub vital: bool, pub data: &'a [u8] }
#[verifier::external_body]
struct ConnlessBuilder { _p: () }

// stand-in for core::iter::{Once, once} (only constructed here)
mod iter {
    use vstd::prelude::*;
    pub struct Once<T> { pub v: Option<T> }
    pub fn once<T>(t: T) -> (r: Once<T>) ensures r.v == Some(t), { Once { v: Some(t) } }
}
// `for chunk in receive_packet.clone() { if let ReceiveChunk::Disconnect(..) = chunk { .. } }`
#[verifier::external_body]
fn vx_has_disconnect<'a>(p: &ConnReceivePacket<'a>) -> (r: bool) ensures r == p.has_disconnect(), { unimplemented!() }
// warning sinks with the address attached (WarnCallback / WarnPeerCallback): only constructed and handed on
pub trait Warn<W> { fn warn(&mut self, warning: W); }
// net::Warning<A> (address-tagged warnings): only passed through
pub struct Warning<A: Address> { _a: core::marker::PhantomData<A> }
#[verifier::external_body]
pub struct WarnAny { _p: () }
impl<W> Warn<W> for WarnAny { #[verifier::external_body] fn warn(&mut self, warning: W) { } }
#[verifier::external_body]
fn w<A: Address, W>(warn: &mut W, addr: A) -> (r: WarnAny) { unimplemented!() }
#[verifier::external_body]
fn wp<A: Address, W>(warn: &mut W, addr: A, pid: PeerId) -> (r: WarnAny) { unimplemented!() }
#[verifier::external_body]
pub struct BufferRef<'d, 's> { _p: core::marker::PhantomData<(&'d mut [u8], &'s mut usize)> }
impl<'a> Packet<'a> {
    // Packet::read (C05/C06): a function of the datagram
    #[verifier::external_body]
    pub fn read<'d, 's, W>(warn: &mut W, data: &'d [u8], token_hint: Option<Token>, buffer: &mut BufferRef<'d, 's>) -> (r: Result<Packet<'d>, ReadError>)
    { unimplemented!() }
}
impl Connection {
    // Connection::feed (C01-C04) acts on this connection only
    #[verifier::external_body]
    pub fn feed<'d, 's, CB: ConnCallback, W>(&mut self, cb: &mut CB, warn: &mut W, data: &'d [u8], buf: &mut BufferRef<'d, 's>) -> (r: (ConnReceivePacket<'d>, Result<(), CB::Error>))
    { unimplemented!() }
}
