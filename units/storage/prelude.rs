// ---- unit storage: snapshot::storage::Storage (C13, receiver-side and sender-side bookkeeping) ----------------------
// Snap and Delta are abstract here: Snap has an item map view, read_with_delta / Delta::create / crc are by contract
// (proved or sampled under C09-C11).  The storage keeps its snapshots newest first with strictly decreasing ticks (wf).
use std::collections::VecDeque;
mod snap {
    use vstd::prelude::*;
    // stand-in for snapshot::snap::Error (only passed through)
    pub struct Error;
    pub struct Builder;
}
mod format {
    pub struct Warning;
}
use snap::Builder;
// ---- prelude (stubs) ----
#[verifier::external_body]
pub struct Snap { _p: () }
#[verifier::external_body]
pub struct Delta { _p: () }

impl Snap {
    pub uninterp spec fn items(&self) -> Map<i32, Seq<i32>>;
    pub uninterp spec fn spec_crc(&self) -> i32;
    #[verifier::external_body]
    pub fn empty() -> (r: Snap) ensures r.items() == Map::<i32, Seq<i32>>::empty(), { unimplemented!() }
    #[verifier::external_body]
    pub fn read_with_delta<W>(&mut self, warn: &mut W, from: &Snap, delta: &Delta) -> (r: Result<(), snap::Error>)
        ensures r is Ok ==> (*final(self)).items() == patched(from.items(), *delta),
    { unimplemented!() }
    #[verifier::external_body]
    pub fn crc(&self) -> (r: i32) ensures r == self.spec_crc(), { unimplemented!() }
}
pub uninterp spec fn patched(from: Map<i32, Seq<i32>>, delta: Delta) -> Map<i32, Seq<i32>>;


impl Delta {
    pub uninterp spec fn spec_between(from: Map<i32, Seq<i32>>, to: Map<i32, Seq<i32>>) -> Delta;
    #[verifier::external_body]
    pub fn create(&mut self, from: &Snap, to: &Snap)
        ensures *final(self) == Delta::spec_between(from.items(), to.items()),
    { unimplemented!() }
}
impl vstd::std_specs::convert::FromSpecImpl<snap::Error> for Error {
    open spec fn obeys_from_spec() -> bool { true }
    open spec fn from_spec(e: snap::Error) -> Error { Error::Unpack(e) }
}
spec fn ticks_desc(s: Seq<StoredSnap>) -> bool {
    forall|i: int, j: int| 0 <= i < j < s.len() ==> s[i].tick > s[j].tick
}
impl Storage {
    spec fn wf(&self) -> bool { ticks_desc(self.snaps@) && self.snaps@.len() <= MAX_STORED_SNAPSHOT }
    // sender side: the tick announced as the base of the next delta (delta_tick) is the tick of the snapshot the delta is computed
    // from (the oldest stored one)
    spec fn base_ok(&self) -> bool {
        self.delta_tick is Some ==> self.snaps@.len() > 0 && self.snaps@[self.snaps@.len() - 1].tick == self.delta_tick->Some_0
    }
}
fn vx_front<T>(q: &VecDeque<T>) -> (r: Option<&T>)
    ensures q@.len() == 0 <==> r.is_none(), r.is_some() ==> *r.unwrap() == q@[0],
{
    if q.len() == 0 { None } else { Some(&q[0]) }
}
fn vx_back<T>(q: &VecDeque<T>) -> (r: Option<&T>)
    ensures q@.len() == 0 <==> r.is_none(), r.is_some() ==> *r.unwrap() == q@[q@.len() - 1],
{
    if q.len() == 0 { None } else { Some(&q[q.len() - 1]) }
}
// snaps.iter().position(|s| s.tick < t)
fn vx_position_older(q: &VecDeque<StoredSnap>, t: i32) -> (r: Option<usize>)
    ensures
        r.is_some() ==> r.unwrap() < q@.len() && q@[r.unwrap() as int].tick < t && forall|j: int| 0 <= j < r.unwrap() ==> q@[j].tick >= t,
        r.is_none() ==> forall|j: int| 0 <= j < q@.len() ==> q@[j].tick >= t,
{
    let mut i: usize = 0;
    while i < q.len()
        invariant i <= q@.len(), forall|j: int| 0 <= j < i ==> q@[j].tick >= t,
        decreases q@.len() - i,
    {
        if q[i].tick < t { return Some(i); }
        i += 1;
    }
    None
}
// self.snaps.drain(i..).map(|s| self_free.push(s.snap)).count(): the tail goes back to the free pool
fn vx_drain_to_free(snaps: &mut VecDeque<StoredSnap>, i: usize, free: &mut Vec<Snap>)
    requires i <= old(snaps)@.len(),
    ensures final(snaps)@ == old(snaps)@.take(i as int), final(free)@.len() >= old(free)@.len(),
{
    while snaps.len() > i
        invariant i <= snaps@.len(), snaps@.len() <= old(snaps)@.len(), snaps@ == old(snaps)@.take(snaps@.len() as int), free@.len() >= old(free)@.len(),
        decreases snaps@.len(),
    {
        let ghost before = snaps@;
        let s = snaps.pop_back().unwrap();
        free.push(s.snap);
        proof {
            assert(before == old(snaps)@.take(before.len() as int));
            assert(snaps@ =~= before.drop_last());
            assert(before.drop_last() =~= before.take(before.len() - 1));
            assert(snaps@.len() == before.len() - 1);
            assert(before.take(before.len() - 1) =~= old(snaps)@.take(before.len() - 1));
            assert(snaps@ =~= old(snaps)@.take(snaps@.len() as int));
        }
    }
    proof { assert(snaps@ =~= old(snaps)@.take(i as int)); }
}
#[verifier::external_body]
fn vx_last_mut(v: &mut Vec<Snap>) -> (r: &mut Snap)
    requires old(v)@.len() > 0,
    ensures final(v)@.len() == old(v)@.len(), final(v)@.take(old(v)@.len() - 1) == old(v)@.take(old(v)@.len() - 1),
        *final(r) == final(v)@[old(v)@.len() - 1],
{ v.last_mut().unwrap() }


// ---- ManagerInner::add_delta (manager.rs): the receiver-side glue between a reassembled message and the storage --------------------
mod storage { pub use super::Error; }
mod receiver { pub struct Error; }
// libtw2_packer::Unpacker: only constructed and passed on here
#[verifier::external_body]
pub struct Unpacker<'a> { _p: core::marker::PhantomData<&'a [u8]> }
impl<'a> Unpacker<'a> {
    pub uninterp spec fn data(&self) -> Seq<u8>;
    #[verifier::external_body]
    pub fn new(data: &'a [u8]) -> (r: Unpacker<'a>) ensures r.data() == data@, { unimplemented!() }
}
impl Delta {
    // the delta a byte string parses to (Delta::read: unit snap_ops), and the delta without deletions and updates
    pub uninterp spec fn spec_parse(data: Seq<u8>) -> Delta;
    pub uninterp spec fn spec_empty() -> Delta;
    #[verifier::external_body]
    pub fn read<W, O: FnMut(u16) -> Option<u32>>(&mut self, warn: &mut W, object_size: O, p: &mut Unpacker) -> (r: Result<(), snap::Error>)
        ensures r is Ok ==> *final(self) == Delta::spec_parse((*old(p)).data()),
    { unimplemented!() }
    #[verifier::external_body]
    pub fn clear(&mut self) ensures *final(self) == Delta::spec_empty(), { unimplemented!() }
}
impl vstd::std_specs::convert::FromSpecImpl<snap::Error> for MgrError {
    open spec fn obeys_from_spec() -> bool { true }
    open spec fn from_spec(e: snap::Error) -> MgrError { MgrError::Snap(e) }
}
impl vstd::std_specs::convert::FromSpecImpl<Error> for MgrError {
    open spec fn obeys_from_spec() -> bool { true }
    open spec fn from_spec(e: Error) -> MgrError { MgrError::Storage(e) }
}
impl vstd::std_specs::convert::FromSpecImpl<receiver::Error> for MgrError {
    open spec fn obeys_from_spec() -> bool { true }
    open spec fn from_spec(e: receiver::Error) -> MgrError { MgrError::Receiver(e) }
}
