mod msg { pub use super::{Snap, SnapEmpty, SnapSingle}; }
spec fn wrap32(x: int) -> i32 {
    if x > 0x7fff_ffff { (x - 0x1_0000_0000) as i32 } else if x < -0x8000_0000 { (x + 0x1_0000_0000) as i32 } else { x as i32 }
}
spec fn wsub(a: i32, b: i32) -> i32 { wrap32(a - b) }
spec fn num_parts_of(len: nat) -> int { (len as int + 899) / 900 }
// bytes of part k of `data`
spec fn part_bytes(data: Seq<u8>, k: int) -> Seq<u8> {
    data.subrange(900 * k, if 900 * (k + 1) <= data.len() { 900 * (k + 1) } else { data.len() as int })
}
impl<'a> DeltaChunks<'a> {
    spec fn wf(&self) -> bool {
        &&& self.data@.len() <= 0x7000_0000
        &&& self.num_parts == num_parts_of(self.data@.len())
        &&& (if self.data@.len() == 0 { -1 <= self.cur_part <= 0 } else { 0 <= self.cur_part <= self.num_parts })
    }
}
// common::num::Cast::{assert_i32 on usize, assert_usize on i32}: value-preserving or panic
trait VxCastUsize: Sized {
    spec fn as_int(self) -> int;
    fn vx_assert_i32(self) -> (r: i32) requires self.as_int() <= 0x7fff_ffff, ensures r == self.as_int();
}
impl VxCastUsize for usize {
    spec fn as_int(self) -> int { self as int }
    fn vx_assert_i32(self) -> (r: i32) { self as i32 }
}
trait VxCastI32: Sized {
    spec fn as_int(self) -> int;
    fn vx_assert_usize(self) -> (r: usize) requires self.as_int() >= 0, ensures r == self.as_int();
}
impl VxCastI32 for i32 {
    spec fn as_int(self) -> int { self as int }
    fn vx_assert_usize(self) -> (r: usize) { self as usize }
}
// core::cmp::min::<usize>
fn vx_min(a: usize, b: usize) -> (r: usize) ensures r == if a <= b { a } else { b }, { if a <= b { a } else { b } }
