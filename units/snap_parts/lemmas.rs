// the parts 0..n of `data` concatenate to `data` (induction on the number of parts taken)
spec fn concat_parts(data: Seq<u8>, n: int) -> Seq<u8>
    decreases n
{
    if n <= 0 { Seq::empty() } else { concat_parts(data, n - 1) + part_bytes(data, n - 1) }
}
proof fn lemma_concat_prefix(data: Seq<u8>, n: int)
    requires 0 <= n <= num_parts_of(data.len()),
    ensures concat_parts(data, n) =~= data.subrange(0, if 900 * n <= data.len() { 900 * n } else { data.len() as int }),
    decreases n
{
    if n > 0 {
        lemma_concat_prefix(data, n - 1);
    }
}
proof fn lemma_concat_all(data: Seq<u8>)
    ensures concat_parts(data, num_parts_of(data.len())) =~= data,
{
    lemma_concat_prefix(data, num_parts_of(data.len()));
}
