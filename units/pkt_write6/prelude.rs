spec fn ph_flags(b0: u8) -> u8 { (b0 & 0b1111_0000) >> 4 }
spec fn ph_ack(b0: u8, b1: u8) -> u16 { (((b0 & 0b0000_0011) as u16) << 8) | (b1 as u16) }
spec fn ph_canonical(b0: u8) -> bool { b0 & 0b0010_0000 != 0 || b0 & 0b0000_1100 == 0 }
spec fn ch_flags(b0: u8) -> u8 { (b0 & 0b1100_0000) >> 6 }
spec fn ch_size(b0: u8, b1: u8) -> u16 { (((b0 & 0b0011_1111) as u16) << 4) | ((b1 & 0b0000_1111) as u16) }
spec fn ch_seq(b1: u8, b2: u8) -> u16 { (((b1 & 0b1111_0000) as u16) << 2) | ((b2 & 0b1111_1111) as u16) }
spec fn ch_seq_canonical(b1: u8, b2: u8) -> bool { (b1 & 0b0011_0000) >> 4 == (b2 & 0b1100_0000) >> 6 }
spec fn is_vital(b0: u8) -> bool { ch_flags(b0) & CHUNKFLAG_VITAL != 0 }
spec fn chunk_wire_len(bytes: Seq<u8>, vital: Option<(u16, bool)>) -> int {
    (if vital.is_some() { 3int } else { 2int }) + bytes.len()
}

mod buffer { pub use super::CapacityError; }

// ---- trusted stubs: zerocopy::AsBytes::as_bytes on the packed headers ------------
impl PacketHeaderPacked {
    #[verifier::external_body]
    fn as_bytes(&self) -> (r: &[u8])
        ensures r@.len() == 3, r@[0] == self.flags_padding_ack, r@[1] == self.ack, r@[2] == self.num_chunks,
    { unimplemented!() }
}
impl ChunkHeaderPacked {
    #[verifier::external_body]
    fn as_bytes(&self) -> (r: &[u8])
        ensures r@.len() == 2, r@[0] == self.flags_size, r@[1] == self.padding_size,
    { unimplemented!() }
}
impl ChunkHeaderVitalPacked {
    #[verifier::external_body]
    fn as_bytes(&self) -> (r: &[u8])
        ensures r@.len() == 3, r@[0] == self.flags_size, r@[1] == self.sequence_size, r@[2] == self.sequence,
    { unimplemented!() }
}
// common::num::Cast::assert_u16 on usize: value-preserving or panic
fn vx_assert_u16(x: usize) -> (r: u16)
    requires x <= 0xffff,
    ensures r == x,
{ x as u16 }
fn vx_is_connect_or_accept(c: &ControlPacket) -> (r: bool)
    ensures r == (c is Connect || c is ConnectAccept),
{ match *c { ControlPacket::Connect => true, ControlPacket::ConnectAccept => true, _ => false } }

// libtw2_huffman::instances::TEEWORLDS.compress(input, &mut ArrayVec) -> Result<&[u8], CapacityError>
#[verifier::external_body]
fn huffman_compress<'x, A>(input: &[u8], buffer: &'x mut ArrayVec<A>) -> (r: Result<&'x [u8], CapacityError>)
    requires (*old(buffer)).wf(), (*old(buffer)).view().len() == 0,
    ensures (*final(buffer)).wf(), r.is_ok() ==> r.unwrap()@ == (*final(buffer)).view(),
        // C07 (unit huff): the output is the compressed form of the input
        r.is_ok() ==> r.unwrap()@ == huff_c(input@),
{ unimplemented!() }

// core::result::Result::unwrap_or: no vstd spec in this build (std semantics assumed)
pub assume_specification<T, E>[core::result::Result::<T, E>::unwrap_or](r: Result<T, E>, d: T) -> (o: T)
    ensures o == (match r { Ok(t) => t, Err(_) => d }),
;

// ghost: specification of `impl From<buffer::CapacityError> for Error` (the exec impl is extracted and checked against it)
impl vstd::std_specs::convert::FromSpecImpl<CapacityError> for Error {
    open spec fn obeys_from_spec() -> bool { true }
    open spec fn from_spec(e: CapacityError) -> Error { Error::Capacity(e) }
}
