mod format { pub use super::*; }
mod ops { pub use core::ops::Range; }
mod mem {
    use vstd::prelude::*;
    // core::mem::size_of::<format::ItemHeader>() == 8 (two i32, #[repr(C)])
    pub fn size_of<T>() -> (r: usize) ensures r == 8, { 8 }
}
spec fn ih_type_id(x: i32) -> u16 { (((x as u32) >> 16) & 0xffff) as u16 }
spec fn ih_id(x: i32) -> u16 { ((x as u32) & 0xffff) as u16 }

// common::slice::relative_size_of_mult::<u8, i32>(mult): asserts mult % 4 == 0, returns mult / 4
#[verifier::external_body]
fn relative_size_of_mult<T, U>(mult: usize) -> (r: usize)
    requires mult % 4 == 0,
    ensures r == mult / 4,
{ unimplemented!() }
// common::slice::relative_size_of::<format::ItemHeader, i32>() == 2
#[verifier::external_body]
fn relative_size_of<T, U>() -> (r: usize) ensures r == 2, { unimplemented!() }
// bitmagic::transmute_slice::<i32, format::ItemHeader>
#[verifier::external_body]
unsafe fn transmute_slice<'a, T, U>(x: &'a [i32]) -> (r: &'a [ItemHeader])
    requires x@.len() % 2 == 0,
    ensures r@.len() == x@.len() / 2,
        forall|j: int| 0 <= j < r@.len() ==> r@[j].type_id_and_id == x@[2 * j] && r@[j].size == x@[2 * j + 1],
{ unimplemented!() }

impl Reader {
    // what Reader::new guarantees before it calls check(): vector lengths are the header's counts
    spec fn lengths_ok(&self) -> bool {
        &&& self.header.hr.num_item_types >= 0 && self.item_types@.len() == self.header.hr.num_item_types
        &&& self.header.hr.num_items >= 0 && self.item_offsets@.len() == self.header.hr.num_items
        &&& self.header.hr.num_data >= 0 && self.data_offsets@.len() == self.header.hr.num_data
        &&& (self.uncomp_data_sizes is Some ==> self.uncomp_data_sizes->Some_0@.len() == self.header.hr.num_data)
        &&& self.header.hr.size_items >= 0 && self.header.hr.size_items % 4 == 0
        &&& self.items_raw@.len() * 4 == self.header.hr.size_items
        &&& self.header.hr.size_data >= 0
    }
    // representation invariant established by check(): everything the accessors index is in range
    spec fn well_formed(&self) -> bool {
        &&& forall|i: int| 0 <= i < self.item_offsets@.len() ==> item_ok(self, i)
        &&& forall|t: int| 0 <= t < self.item_types@.len() ==> type_ok(self, t)
        // data offsets: monotone inside size_data
        &&& forall|d: int| 0 <= d < self.data_offsets@.len() ==> 0 <= #[trigger] self.data_offsets@[d] <= self.header.hr.size_data
        &&& forall|d: int, e: int| 0 <= d <= e < self.data_offsets@.len() ==> self.data_offsets@[d] <= self.data_offsets@[e]
    }
}
// item i: offset non-negative, 4-aligned, header and (4-aligned, non-negative sized) body inside items_raw
spec fn item_ok(r: &Reader, i: int) -> bool {
    let off = r.item_offsets@[i];
    &&& off >= 0 && off % 4 == 0 && off / 4 + 2 <= r.items_raw@.len()
    &&& r.items_raw@[off / 4 + 1] >= 0 && r.items_raw@[off / 4 + 1] % 4 == 0
    &&& off / 4 + 2 + r.items_raw@[off / 4 + 1] / 4 <= r.items_raw@.len()
}
// item type t: a valid id and a range of existing items
spec fn type_ok(r: &Reader, t: int) -> bool {
    let ty = r.item_types@[t];
    0 <= ty.type_id < 0x10000 && 0 <= ty.start && 0 <= ty.num && ty.start + ty.num <= r.item_offsets@.len()
}
