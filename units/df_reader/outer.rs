// log crate macros: arguments are not evaluated here (assumption recorded: they are field reads and cannot panic)
macro_rules! error { ($($t:tt)*) => {}; }
macro_rules! debug { ($($t:tt)*) => {}; }
