// ---- wire format of the 0.7 packet header as spec functions (asserted for all
//      2^24 headers by Kani complete_packet_header_bytes_v7) ----------------------
spec fn ph_flags(b0: u8) -> u8 { (b0 & 0b0011_1100) >> 2 }
spec fn ph_ack(b0: u8, b1: u8) -> u16 { (((b0 & 0b0000_0011) as u16) << 8) | (b1 as u16) }
spec fn ph_canonical(b0: u8) -> bool { b0 & 0b1100_0000 == 0 }
// ---- trusted stubs ---------------------------------------------------------------
mod str {}
// stand-in for core::cmp::min::<usize> (vstd has no spec for the generic fn)
mod cmp {
    use vstd::prelude::*;
    pub fn min(a: usize, b: usize) -> (r: usize)
        ensures r == if a <= b { a } else { b },
    { if a <= b { a } else { b } }
}
#[derive(Debug)]
pub enum DecompressionError { Capacity(CapacityError), InvalidInput }
mod libtw2_huffman { pub use super::DecompressionError; }

impl PacketHeaderPacked {
    // common::bytes::FromBytesExt::ref_and_rest_from over zerocopy::FromBytes
    #[verifier::external_body]
    fn ref_and_rest_from<'a>(bytes: &'a [u8]) -> (r: Option<(&'a PacketHeaderPacked, &'a [u8])>)
        ensures
            bytes@.len() < 7 <==> r.is_none(),
            r.is_some() ==> r.unwrap().1@ == bytes@.subrange(7, bytes@.len() as int)
                && r.unwrap().0.padding_flags_ack == bytes@[0] && r.unwrap().0.ack == bytes@[1]
                && r.unwrap().0.num_chunks == bytes@[2] && r.unwrap().0.token@ == bytes@.subrange(3, 7),
    { unimplemented!() }
    // zerocopy::AsBytes::as_bytes
    #[verifier::external_body]
    fn as_bytes(&self) -> (r: &[u8])
        ensures r@.len() == 7, r@[0] == self.padding_flags_ack, r@[1] == self.ack, r@[2] == self.num_chunks,
            r@.subrange(3, 7) == self.token@,
    { unimplemented!() }
}
impl PacketHeaderConnlessPacked {
    #[verifier::external_body]
    fn ref_and_rest_from<'a>(bytes: &'a [u8]) -> (r: Option<(&'a PacketHeaderConnlessPacked, &'a [u8])>)
        ensures
            bytes@.len() < 9 <==> r.is_none(),
            r.is_some() ==> r.unwrap().1@ == bytes@.subrange(9, bytes@.len() as int)
                && r.unwrap().0.padding_flags_version == bytes@[0]
                && r.unwrap().0.token@ == bytes@.subrange(1, 5) && r.unwrap().0.response_token@ == bytes@.subrange(5, 9),
    { unimplemented!() }
}

// libtw2_huffman::instances::TEEWORLDS.decompress(input, &mut BufferRef)
#[verifier::external_body]
fn huffman_decompress<'d, 's, 'x>(input: &[u8], buffer: &'x mut BufferRef<'d, 's>) -> (r: Result<&'d [u8], DecompressionError>)
    requires (*old(buffer)).wf(),
    ensures
        (*final(buffer)).wf(),
        (*final(buffer)).cap() == (*old(buffer)).cap(),
        r.is_ok() ==> (*final(buffer)).init().len() >= (*old(buffer)).init().len()
            && (*final(buffer)).init().subrange(0, (*old(buffer)).init().len() as int) == (*old(buffer)).init(),
        // C07 (unit huff, lemma_roundtrip): what the compressor produced for x decodes to x whenever there is room for it
        forall|x: Seq<u8>| input@ == #[trigger] huff_c(x) && (*old(buffer)).init().len() + x.len() <= (*old(buffer)).cap()
            ==> r.is_ok() && (*final(buffer)).init() == (*old(buffer)).init() + x,
{ unimplemented!() }

impl<'a> Packet<'a> {
    // Packet::decompress = with_buffer(&mut BufferRef, decompress_impl): a nested view of `buffer`
    #[verifier::external_body]
    fn decompress<'d, 's, 'x>(packet: &[u8], buffer: &'x mut BufferRef<'d, 's>) -> (r: Result<&'d [u8], DecompressionError>)
        requires
            (*old(buffer)).wf(),
            (*old(buffer)).init().len() == 0,
            (*old(buffer)).cap() >= 1400,
            packet@.len() >= 7 && packet@.len() <= 1400,
            ph_flags(packet@[0]) & PACKETFLAG_CONNLESS == 0,
            ph_flags(packet@[0]) & PACKETFLAG_COMPRESSION != 0,
        ensures
            r.is_ok() ==> 7 <= r.unwrap()@.len() <= (*old(buffer)).cap(),
            // same clause as decompress_impl (the nested view starts empty and has the whole capacity)
            forall|x: Seq<u8>| packet@.subrange(7, packet@.len() as int) == #[trigger] huff_c(x) && x.len() <= 1393 ==> r.is_ok() && ({
                let o = r.unwrap()@;
                &&& o.len() == 7 + x.len()
                &&& o.subrange(7, o.len() as int) == x
                &&& ph_flags(o[0]) == ph_flags(packet@[0]) & !PACKETFLAG_COMPRESSION
                &&& ph_ack(o[0], o[1]) == ph_ack(packet@[0], packet@[1])
                &&& o[2] == packet@[2]
                &&& o.subrange(3, 7) == packet@.subrange(3, 7)
                &&& ph_canonical(o[0])
            }),
    { unimplemented!() }
}

#[verifier::external_body]
fn vx_from_utf8_is_err(s: &[u8]) -> bool { unimplemented!() }
fn vx_slice_eq4(a: &[u8], b: &[u8; 4]) -> (r: bool)
    requires a@.len() == 4,
    ensures r == (a@ == b@),
{
    let r = a[0] == b[0] && a[1] == b[1] && a[2] == b[2] && a[3] == b[3];
    proof { if r { assert(a@ =~= b@); } }
    r
}
fn vx_first_copied(s: &[u8]) -> (r: Option<u8>)
    ensures s@.len() == 0 <==> r.is_none(), r.is_some() ==> r.unwrap() == s@[0],
{
    if s.len() == 0 { None } else { Some(s[0]) }
}
fn vx_opt_remaining_ge(b: &Option<BufferRef>, n: usize) -> (r: bool)
    requires b.is_some() ==> b.unwrap().wf(),
    ensures r == (b.is_none() || b.unwrap().cap() - b.unwrap().init().len() >= n),
{
    match b { Some(x) => x.remaining() >= n, None => true }
}

// ---- composition of the writer's and the reader's contract (C05 / C06): a 0.7 control packet written by
//      ControlPacket::write and read back is the same packet, and no warning is raised.  Checked against the two
//      CONTRACTS only (write is external_body here; its body is verified in unit pkt_write7).  Not covered: a Token
//      message carrying a real packet token (12 bytes) -- accepting it depends on `header.token != TOKEN_NONE`, a derived
//      PartialEq on Token that this Verus leaves uninterpreted; the token REQUEST (packet token TOKEN_NONE, 519 bytes)
//      is covered for acceptance and fields, not for the absence of warnings (same reason).
fn vx_roundtrip_control<'d, 's, 'e, 't, W: Warn<Warning>>(
    warn: &mut W,
    c: &ControlPacket<'d>,
    token: Token,
    ack: u16,
    buffer: BufferRef<'d, 's>,
    scratch: BufferRef<'e, 't>,
) where 'd: 'e
    requires
        buffer.wf(), buffer.init().len() == 0, buffer.cap() >= 1400,
        scratch.wf(), scratch.init().len() == 0, scratch.cap() >= 1400,
        ack < 1024,
        c is Close ==> c->Close_0@.len() <= 127 && (forall|i: int| 0 <= i < c->Close_0@.len() ==> c->Close_0@[i] != 0),
        c is Connect ==> c->Connect_0 != TOKEN_NONE,
        c is Token ==> c->Token_0 != TOKEN_NONE && token == TOKEN_NONE,
    ensures
        !(c is Token) ==> (*final(warn)).count() == (*old(warn)).count(),
{
    let w = c.write(token, ack, buffer);
    assert(w.is_ok());
    let bytes = w.unwrap();
    proof {
        assert(PACKETFLAG_CONTROL == 1u8 && PACKETFLAG_CONNLESS == 8u8 && PACKETFLAG_REQUEST_RESEND == 2u8 && PACKETFLAG_COMPRESSION == 4u8) by (compute_only);
        let f = ph_flags(bytes@[0]);
        assert(f == 1u8 ==> (f & 2u8 == 0 && f & 4u8 == 0 && f & 8u8 == 0 && f & 1u8 != 0)) by (bit_vector);
    }
    let r = Packet::read_impl(warn, bytes, Some(scratch));
    assert(r.is_ok());
    match r.unwrap() {
        Packet::Connless(_) => { assert(false); }
        Packet::Connected(p) => {
            assert(p.ack == ack);
            assert(p.token.0@ =~= token.0@);
            match p.type_ {
                ConnectedPacketType::Chunks(_, _, _) => { assert(false); }
                ConnectedPacketType::Control(c2) => {
                    assert(c2 is KeepAlive == c is KeepAlive);
                    assert(c2 is Connect == c is Connect);
                    assert(c2 is Accept == c is Accept);
                    assert(c2 is Close == c is Close);
                    assert(c2 is Token == c is Token);
                    if let ControlPacket::Connect(rt) = c2 {
                        assert(rt.0@ =~= c->Connect_0.0@);
                    }
                    if let ControlPacket::Token(rt) = c2 {
                        proof {
                            let body = bytes@.subrange(8, bytes@.len() as int);
                            assert(body.subrange(0, 4) =~= c->Token_0.0@);
                            assert(bytes@.subrange(8, 12) =~= body.subrange(0, 4));
                        }
                        assert(rt.0@ =~= c->Token_0.0@);
                    }
                    if let ControlPacket::Close(reason) = c2 {
                        proof {
                            let m = c->Close_0@;
                            let n = bytes@.len() as int;
                            let pl = bytes@.subrange(8, n);
                            assert(pl =~= m.push(0u8));
                            if reason@.len() < m.len() {
                                assert(pl[reason@.len() as int] == m[reason@.len() as int]);
                            }
                            if reason@.len() > m.len() {
                                assert(reason@[m.len() as int] == pl[m.len() as int]);
                            }
                            assert(reason@.len() == m.len());
                            assert(reason@ =~= m);
                        }
                        assert(reason@ == c->Close_0@);
                    }
                }
            }
        }
    }
}

// ---- composition for chunk packets (C05 / C06), 0.7: written by ConnectedPacket::write_impl and read back: same ack, token, resend
//      flag, chunk count and payload bytes, and no warning (except the documented ChunksNoChunks) -- for BOTH output forms of the writer.
//      Checked against the two contracts only; for the compressed form they speak about huff_c (shared/huff_spec.rs), i.e. the round trip
//      rests on unit huff's theorem.
fn vx_roundtrip_chunks<'d, 's, 'e, 't, W: Warn<Warning>>(
    warn: &mut W,
    p: &ConnectedPacket<'d>,
    buffer: BufferRef<'d, 's>,
    scratch: BufferRef<'e, 't>,
) where 'd: 'e
    requires
        buffer.wf(), buffer.init().len() == 0, buffer.cap() >= 1400,
        scratch.wf(), scratch.init().len() == 0, scratch.cap() >= 1400,
        p.ack < 1024,
        p.type_ is Chunks,
        p.type_->Chunks_2@.len() <= 1393,
{
    let ghost w0 = warn.count();
    let ghost pl = p.type_->Chunks_2@;
    let w = p.write_impl(buffer);
    assert(w.is_ok());
    let bytes = w.unwrap();
    proof {
        assert(PACKETFLAG_CONTROL == 1u8 && PACKETFLAG_CONNLESS == 8u8 && PACKETFLAG_REQUEST_RESEND == 2u8 && PACKETFLAG_COMPRESSION == 4u8) by (compute_only);
    }
    let r = Packet::read_impl(warn, bytes, Some(scratch));
    assert(r.is_ok());
    match r.unwrap() {
        Packet::Connless(_) => { assert(false); }
        Packet::Connected(q) => {
            assert(q.ack == p.ack);
            assert(q.token.0@ =~= p.token.0@);
            match q.type_ {
                ConnectedPacketType::Control(_) => { assert(false); }
                ConnectedPacketType::Chunks(rr, num, payload) => {
                    assert(rr == p.type_->Chunks_0);
                    assert(num == p.type_->Chunks_1);
                    assert(payload@ =~= pl);
                    assert(num != 0 || rr ==> warn.count() == w0);
                }
            }
        }
    }
}
