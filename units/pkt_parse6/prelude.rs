// ---- wire format of the 0.6 packet header as spec functions (asserted for all
//      2^24 headers by Kani complete_packet_header_bytes_v6) ----------------------
spec fn ph_flags(b0: u8) -> u8 { (b0 & 0b1111_0000) >> 4 }
spec fn ph_ack(b0: u8, b1: u8) -> u16 { (((b0 & 0b0000_0011) as u16) << 8) | (b1 as u16) }
spec fn ph_canonical(b0: u8) -> bool { b0 & 0b0010_0000 != 0 || b0 & 0b0000_1100 == 0 }
spec fn ch_flags(b0: u8) -> u8 { (b0 & 0b1100_0000) >> 6 }
spec fn ch_size(b0: u8, b1: u8) -> u16 { (((b0 & 0b0011_1111) as u16) << 4) | ((b1 & 0b0000_1111) as u16) }
spec fn ch_seq(b1: u8, b2: u8) -> u16 { (((b1 & 0b1111_0000) as u16) << 2) | ((b2 & 0b1111_1111) as u16) }
spec fn is_vital(b0: u8) -> bool { ch_flags(b0) & CHUNKFLAG_VITAL != 0 }
spec fn chunk_hl(d: Seq<u8>) -> int { if is_vital(d[0]) { 3 } else { 2 } }
spec fn chunk_fits(d: Seq<u8>) -> bool {
    d.len() >= 2 && d.len() >= chunk_hl(d) + ch_size(d[0], d[1])
}
impl<'a> ChunksIter<'a> {
    spec fn wf(&self) -> bool {
        &&& self.data@.len() <= self.initial_len
        &&& self.initial_len <= 0x7fff_ffff
        &&& self.num_remaining_chunks <= 255
        &&& 2 * self.num_remaining_chunks + (self.initial_len - self.data@.len()) >= 0
    }
}

// ---- trusted stubs ---------------------------------------------------------------
mod str {}
// stand-in for core::cmp::min::<usize> (vstd has no spec for the generic fn)
mod cmp {
    use vstd::prelude::*;
    pub fn min(a: usize, b: usize) -> (r: usize)
        ensures r == if a <= b { a } else { b },
    { if a <= b { a } else { b } }
}
#[derive(Debug)]
pub enum DecompressionError { Capacity(CapacityError), InvalidInput }
mod libtw2_huffman { pub use super::DecompressionError; }

impl PacketHeaderPacked {
    // common::bytes::FromBytesExt::ref_and_rest_from over zerocopy::FromBytes
    #[verifier::external_body]
    fn ref_and_rest_from<'a>(bytes: &'a [u8]) -> (r: Option<(&'a PacketHeaderPacked, &'a [u8])>)
        ensures
            bytes@.len() < 3 <==> r.is_none(),
            r.is_some() ==> r.unwrap().1@ == bytes@.subrange(3, bytes@.len() as int)
                && r.unwrap().0.flags_padding_ack == bytes@[0] && r.unwrap().0.ack == bytes@[1]
                && r.unwrap().0.num_chunks == bytes@[2],
    { unimplemented!() }
    // zerocopy::AsBytes::as_bytes
    #[verifier::external_body]
    fn as_bytes(&self) -> (r: &[u8])
        ensures r@.len() == 3, r@[0] == self.flags_padding_ack, r@[1] == self.ack, r@[2] == self.num_chunks,
    { unimplemented!() }
}

// libtw2_huffman::instances::TEEWORLDS.decompress(input, &mut BufferRef)
#[verifier::external_body]
fn huffman_decompress<'d, 's, 'x>(input: &[u8], buffer: &'x mut BufferRef<'d, 's>) -> (r: Result<&'d [u8], DecompressionError>)
    requires (*old(buffer)).wf(),
    ensures
        (*final(buffer)).wf(),
        (*final(buffer)).cap() == (*old(buffer)).cap(),
        r.is_ok() ==> (*final(buffer)).init().len() >= (*old(buffer)).init().len()
            && (*final(buffer)).init().subrange(0, (*old(buffer)).init().len() as int) == (*old(buffer)).init(),
        // C07 (unit huff, lemma_roundtrip): what the compressor produced for x decodes to x whenever there is room for it
        forall|x: Seq<u8>| input@ == #[trigger] huff_c(x) && (*old(buffer)).init().len() + x.len() <= (*old(buffer)).cap()
            ==> r.is_ok() && (*final(buffer)).init() == (*old(buffer)).init() + x,
{ unimplemented!() }

impl<'a> Packet<'a> {
    // Packet::decompress = with_buffer(&mut BufferRef, decompress_impl): a nested view of `buffer`
    #[verifier::external_body]
    fn decompress<'d, 's, 'x>(packet: &[u8], buffer: &'x mut BufferRef<'d, 's>) -> (r: Result<&'d [u8], DecompressionError>)
        requires
            (*old(buffer)).wf(),
            (*old(buffer)).init().len() == 0,
            (*old(buffer)).cap() >= 1400,
            packet@.len() >= 3 && packet@.len() <= 1400,
            ph_flags(packet@[0]) & PACKETFLAG_CONNLESS == 0,
            ph_flags(packet@[0]) & PACKETFLAG_COMPRESSION != 0,
        ensures
            r.is_ok() ==> 3 <= r.unwrap()@.len() <= (*old(buffer)).cap(),
            // same clause as decompress_impl (the nested view starts empty and has the whole capacity)
            forall|x: Seq<u8>| packet@.subrange(3, packet@.len() as int) == #[trigger] huff_c(x) && x.len() <= 1397 ==> r.is_ok() && ({
                let o = r.unwrap()@;
                &&& o.len() == 3 + x.len()
                &&& o.subrange(3, o.len() as int) == x
                &&& ph_flags(o[0]) == ph_flags(packet@[0]) & !PACKETFLAG_COMPRESSION
                &&& ph_ack(o[0], o[1]) == ph_ack(packet@[0], packet@[1])
                &&& o[2] == packet@[2]
                &&& ph_canonical(o[0])
            }),
    { unimplemented!() }
}

#[verifier::external_body]
fn vx_from_utf8_is_err(s: &[u8]) -> bool { unimplemented!() }
fn vx_slice_eq4(a: &[u8], b: &[u8; 4]) -> (r: bool)
    requires a@.len() == 4,
    ensures r == (a@ == b@),
{
    let r = a[0] == b[0] && a[1] == b[1] && a[2] == b[2] && a[3] == b[3];
    proof { if r { assert(a@ =~= b@); } }
    r
}
fn vx_first_copied(s: &[u8]) -> (r: Option<u8>)
    ensures s@.len() == 0 <==> r.is_none(), r.is_some() ==> r.unwrap() == s@[0],
{
    if s.len() == 0 { None } else { Some(s[0]) }
}
fn vx_opt_remaining_ge(b: &Option<BufferRef>, n: usize) -> (r: bool)
    requires b.is_some() ==> b.unwrap().wf(),
    ensures r == (b.is_none() || b.unwrap().cap() - b.unwrap().init().len() >= n),
{
    match b { Some(x) => x.remaining() >= n, None => true }
}

// ---- composition of the writer's and the reader's contract (C05 / C06): a control packet written by
//      ControlPacket::write and read back with the matching token hint is the same packet, and no warning is raised.
//      Checked against the two CONTRACTS only (write is external_body here; its body is verified in unit pkt_write6).
fn vx_roundtrip_control<'d, 's, 'e, 't, W: Warn<Warning>>(
    warn: &mut W,
    c: &ControlPacket<'d>,
    token: Option<Token>,
    ack: u16,
    buffer: BufferRef<'d, 's>,
    scratch: BufferRef<'e, 't>,
) where 'd: 'e
    requires
        buffer.wf(), buffer.init().len() == 0, buffer.cap() >= 1400,
        scratch.wf(), scratch.init().len() == 0, scratch.cap() >= 1400,
        ack < 1024,
        c is Close ==> c->Close_0@.len() <= 127 && (forall|i: int| 0 <= i < c->Close_0@.len() ==> c->Close_0@[i] != 0),
    ensures
        (*final(warn)).count() == (*old(warn)).count(),
{
    let w = c.write(token, ack, buffer);
    assert(w.is_ok());
    let bytes = w.unwrap();
    proof {
        assert(PACKETFLAG_CONTROL == 1u8 && PACKETFLAG_CONNLESS == 2u8 && PACKETFLAG_REQUEST_RESEND == 4u8 && PACKETFLAG_COMPRESSION == 8u8) by (compute_only);
        let f = ph_flags(bytes@[0]);
        assert(f == 1u8 ==> (f & 2u8 == 0 && f & 4u8 == 0 && f & 8u8 == 0 && f & 1u8 != 0)) by (bit_vector);
    }
    let hint = Some(token.is_some());
    let r = Packet::read_impl(warn, bytes, hint, Some(scratch));
    assert(r.is_ok());
    proof {
        // positions: bytes = header(3) ++ [id] ++ magic ++ body ++ token
        let n = bytes@.len() as int;
        let tl: int = if token.is_some() { 4 } else { 0 };
        let tk: Seq<u8> = if token.is_some() { token.unwrap().0@ } else { Seq::<u8>::empty() };
        let mg: Seq<u8> = if (c is Connect || c is ConnectAccept) && token.is_some() { CTRLMSG_TOKEN_MAGIC@ } else { Seq::<u8>::empty() };
        let body: Seq<u8> = if c is Close { c->Close_0@.push(0u8) } else { Seq::<u8>::empty() };
        let rest = bytes@.subrange(4, n);
        assert(rest == mg + body + tk);
        assert(tk.len() == tl);
        assert(bytes@.subrange(4, n - tl) =~= rest.subrange(0, rest.len() - tl));
        assert(rest.subrange(0, rest.len() - tl) =~= mg + body);
        assert(bytes@.subrange(n - tl, n) =~= rest.subrange(rest.len() - tl, rest.len() as int));
        assert(rest.subrange(rest.len() - tl, rest.len() as int) =~= tk);
    }
    match r.unwrap() {
        Packet::Connless(_) => { assert(false); }
        Packet::Connected(p) => {
            assert(p.ack == ack);
            assert(p.token.is_some() == token.is_some());
            assert(token.is_some() ==> p.token.unwrap().0@ =~= token.unwrap().0@);
            match p.type_ {
                ConnectedPacketType::Chunks(_, _, _) => { assert(false); }
                ConnectedPacketType::Control(c2) => {
                    assert(c2 is KeepAlive == c is KeepAlive);
                    assert(c2 is Connect == c is Connect);
                    assert(c2 is ConnectAccept == c is ConnectAccept);
                    assert(c2 is Accept == c is Accept);
                    assert(c2 is Close == c is Close);
                    if let ControlPacket::Close(reason) = c2 {
                        proof {
                            let m = c->Close_0@;
                            let n = bytes@.len() as int;
                            let tl: int = if token.is_some() { 4 } else { 0 };
                            let pl = bytes@.subrange(4, n - tl);
                            assert(pl =~= m.push(0u8));
                            // the reason read back is a NUL-free prefix of m ++ [0] that ends at a NUL or at 127 bytes
                            if reason@.len() < m.len() {
                                assert(pl[reason@.len() as int] == m[reason@.len() as int]);
                            }
                            if reason@.len() > m.len() {
                                assert(reason@[m.len() as int] == pl[m.len() as int]);
                            }
                            assert(reason@.len() == m.len());
                            assert(reason@ =~= m);
                        }
                        assert(reason@ == c->Close_0@);
                    }
                }
            }
        }
    }
}

// ---- composition for chunk packets (C05 / C06): written by ConnectedPacket::write_impl, read back with the matching token hint:
//      same ack, token, resend flag, chunk count and payload bytes, and no warning (except the documented ChunksNoChunks for an empty
//      packet without resend request) -- for BOTH output forms of the writer.  Checked against the two contracts only; for the
//      compressed form the contracts speak about huff_c (shared/huff_spec.rs), i.e. the round trip rests on unit huff's theorem.
fn vx_roundtrip_chunks<'d, 's, 'e, 't, W: Warn<Warning>>(
    warn: &mut W,
    p: &ConnectedPacket<'d>,
    buffer: BufferRef<'d, 's>,
    scratch: BufferRef<'e, 't>,
) where 'd: 'e
    requires
        buffer.wf(), buffer.init().len() == 0, buffer.cap() >= 1400,
        scratch.wf(), scratch.init().len() == 0, scratch.cap() >= 1400,
        p.ack < 1024,
        p.type_ is Chunks,
        // what the connection layer sends: payload + token fit a datagram
        p.type_->Chunks_2@.len() + (if p.token.is_some() { 4int } else { 0int }) <= 1397,
{
    let ghost w0 = warn.count();
    let ghost pl = p.type_->Chunks_2@;
    let ghost full = if p.token.is_some() { pl + p.token.unwrap().0@ } else { pl };
    let w = p.write_impl(buffer);
    assert(w.is_ok());
    let bytes = w.unwrap();
    proof {
        assert(PACKETFLAG_CONTROL == 1u8 && PACKETFLAG_CONNLESS == 2u8 && PACKETFLAG_REQUEST_RESEND == 4u8 && PACKETFLAG_COMPRESSION == 8u8) by (compute_only);
        assert(full.len() <= 1397);
        if p.token.is_some() { assert(full.len() >= 4); }
    }
    let hint = Some(p.token.is_some());
    let r = Packet::read_impl(warn, bytes, hint, Some(scratch));
    assert(r.is_ok());
    match r.unwrap() {
        Packet::Connless(_) => { assert(false); }
        Packet::Connected(q) => {
            assert(q.ack == p.ack);
            assert(q.token.is_some() == p.token.is_some());
            proof {
                let n = bytes@.len() as int;
                if p.token.is_some() {
                    assert(full.subrange(full.len() - 4, full.len() as int) =~= p.token.unwrap().0@);
                    assert(full.subrange(0, full.len() - 4) =~= pl);
                    if ph_flags(bytes@[0]) & PACKETFLAG_COMPRESSION == 0 {
                        assert(bytes@.subrange(n - 4, n) =~= bytes@.subrange(3 + pl.len() as int, n));
                    }
                    assert(q.token.unwrap().0@ =~= p.token.unwrap().0@);
                } else {
                    assert(full.subrange(0, full.len() as int) =~= pl);
                }
            }
            match q.type_ {
                ConnectedPacketType::Control(_) => { assert(false); }
                ConnectedPacketType::Chunks(rr, num, payload) => {
                    assert(rr == p.type_->Chunks_0);
                    assert(num == p.type_->Chunks_1);
                    assert(payload@ =~= pl);
                    assert(num != 0 || rr ==> warn.count() == w0);
                }
            }
        }
    }
}
