// ---- trusted stubs for zerocopy / common::bytes::FromBytesExt ------------------
impl ChunkHeaderPacked {
    #[verifier::external_body]
    fn ref_and_rest_from<'a>(bytes: &'a [u8]) -> (r: Option<(&'a ChunkHeaderPacked, &'a [u8])>)
        ensures
            bytes@.len() < 2 <==> r.is_none(),
            r.is_some() ==> r.unwrap().1@ == bytes@.subrange(2, bytes@.len() as int)
                && r.unwrap().0.flags_size == bytes@[0] && r.unwrap().0.padding_size == bytes@[1],
    { unimplemented!() }
}
impl ChunkHeaderVitalPacked {
    #[verifier::external_body]
    fn ref_and_rest_from<'a>(bytes: &'a [u8]) -> (r: Option<(&'a ChunkHeaderVitalPacked, &'a [u8])>)
        ensures
            bytes@.len() < 3 <==> r.is_none(),
            r.is_some() ==> r.unwrap().1@ == bytes@.subrange(3, bytes@.len() as int)
                && r.unwrap().0.flags_size == bytes@[0] && r.unwrap().0.sequence_size == bytes@[1]
                && r.unwrap().0.sequence == bytes@[2],
    { unimplemented!() }
}

// representation invariant of the chunk iterator: the counter of expected
// chunks cannot underflow because every yielded chunk consumes >= 2 bytes of
// a payload that is shorter than 2^31 bytes.
impl<'a> ChunksIter<'a> {
    spec fn wf(&self) -> bool {
        &&& self.data@.len() <= self.initial_len
        &&& self.initial_len <= 0x7fff_ffff
        &&& self.num_remaining_chunks <= 255
        &&& 2 * self.num_remaining_chunks + (self.initial_len - self.data@.len()) >= 0
    }
}

// ---- wire format of a 0.7 chunk header as spec functions -----------------------
// (the same expressions are asserted for all header bytes by the Kani harnesses
//  complete_chunk_header_bytes_v7 / complete_chunk_header_vital_bytes_v7)
spec fn ch_flags(b0: u8) -> u8 { (b0 & 0b1100_0000) >> 6 }
spec fn ch_size(b0: u8, b1: u8) -> u16 { (((b0 & 0b0011_1111) as u16) << 6) | ((b1 & 0b0011_1111) as u16) }
spec fn ch_seq(b1: u8, b2: u8) -> u16 { (((b1 & 0b1100_0000) as u16) << 2) | ((b2 & 0b1111_1111) as u16) }
spec fn is_vital(b0: u8) -> bool { ch_flags(b0) & CHUNKFLAG_VITAL != 0 }
spec fn chunk_hl(d: Seq<u8>) -> int { if is_vital(d[0]) { 3 } else { 2 } }
spec fn chunk_fits(d: Seq<u8>) -> bool {
    d.len() >= 2 && d.len() >= chunk_hl(d) + ch_size(d[0], d[1])
}
