// ---- unit teehist: teehistorian raw::Reader::read (C17) --------------------------------------------------------------
// The payload types of the pass-through items are opaque; VecMap, the byte Buffer (read_kind / read_item: callbacks,
// raw pointers) and the error conversions are by contract.  What is proved is the reader's own state machine.
use std::cmp;
use std::ops;
#[verifier::external_body]
pub struct Message<'a> { _p: core::marker::PhantomData<&'a ()> }
#[verifier::external_body]
pub struct Join { _p: () }
#[verifier::external_body]
pub struct Drop<'a> { _p: core::marker::PhantomData<&'a ()> }
#[verifier::external_body]
pub struct Antibot<'a> { _p: core::marker::PhantomData<&'a ()> }
#[verifier::external_body]
pub struct ConsoleCommand<'a> { _p: core::marker::PhantomData<&'a ()> }
#[verifier::external_body]
pub struct AuthInit<'a> { _p: core::marker::PhantomData<&'a ()> }
#[verifier::external_body]
pub struct AuthLogin<'a> { _p: core::marker::PhantomData<&'a ()> }
#[verifier::external_body]
pub struct AuthLogout { _p: () }
#[verifier::external_body]
pub struct Ddnetver<'a> { _p: core::marker::PhantomData<&'a ()> }
#[verifier::external_body]
pub struct DdnetverOld { _p: () }
#[verifier::external_body]
pub struct Joinver6 { _p: () }
#[verifier::external_body]
pub struct Joinver7 { _p: () }
#[verifier::external_body]
pub struct PlayerFinish { _p: () }
#[verifier::external_body]
pub struct PlayerName<'a> { _p: core::marker::PhantomData<&'a ()> }
#[verifier::external_body]
pub struct PlayerReady { _p: () }
#[verifier::external_body]
pub struct PlayerRejoin { _p: () }
#[verifier::external_body]
pub struct PlayerSwap { _p: () }
#[verifier::external_body]
pub struct PlayerTeam { _p: () }
#[verifier::external_body]
pub struct TeamFinish { _p: () }
#[verifier::external_body]
pub struct TeamLoadFailure { _p: () }
#[verifier::external_body]
pub struct TeamLoadSuccess<'a> { _p: core::marker::PhantomData<&'a ()> }
#[verifier::external_body]
pub struct TeamPractice { _p: () }
#[verifier::external_body]
pub struct TeamSaveFailure { _p: () }
#[verifier::external_body]
pub struct TeamSaveSuccess<'a> { _p: core::marker::PhantomData<&'a ()> }
#[verifier::external_body]
pub struct UnknownEx<'a> { _p: core::marker::PhantomData<&'a ()> }

// module paths used by raw.rs
mod item { pub use super::*; }
mod format {
    pub use super::FItem as Item;
    pub use super::FormatError as Error;
    pub use super::Version;
    pub mod item { pub use super::super::*; }
}
#[derive(Clone, Copy, PartialEq, Eq)]
pub enum Version { V1, V2 }
pub enum FormatError {
    UnknownVersion,
    TickOverflow,
    UnexpectedEnd,
    InvalidClientId,
    PlayerNewDuplicate,
    PlayerDiffWithoutNew,
    PlayerOldWithoutNew,
    InputNewDuplicate,
    InputDiffWithoutNew,
    Other,
}
pub trait Callback { type Error; }
pub enum Error<CE> {
    Teehistorian(FormatError),
    Cb(CE),
}
impl<CE> From<FormatError> for Error<CE> {
    fn from(e: FormatError) -> Error<CE> { Error::Teehistorian(e) }
}
impl<CE> vstd::std_specs::convert::FromSpecImpl<FormatError> for Error<CE> {
    open spec fn obeys_from_spec() -> bool { true }
    open spec fn from_spec(e: FormatError) -> Error<CE> { Error::Teehistorian(e) }
}

// ---- vec_map::VecMap by contract ----
#[verifier::external_body]
#[verifier::reject_recursive_types(V)]
pub struct VecMap<V> { _p: core::marker::PhantomData<V> }
impl<V> VecMap<V> {
    pub uninterp spec fn view(&self) -> Map<usize, V>;
    #[verifier::external_body]
    pub fn insert(&mut self, key: usize, value: V) -> (r: Option<V>)
        ensures (*final(self))@ == (*old(self))@.insert(key, value),
            r is Some <==> (*old(self))@.dom().contains(key),
    { unimplemented!() }
    #[verifier::external_body]
    pub fn remove(&mut self, key: usize) -> (r: Option<V>)
        ensures (*final(self))@ == (*old(self))@.remove(key),
            r is Some <==> (*old(self))@.dom().contains(key),
            r is Some ==> r->Some_0 == (*old(self))@[key],
    { unimplemented!() }
    #[verifier::external_body]
    pub fn get_mut(&mut self, key: usize) -> (r: Option<&mut V>)
        ensures
            r is Some <==> (*old(self))@.dom().contains(key),
            r is Some ==> *(r->Some_0) == (*old(self))@[key] && (*final(self))@ == (*old(self))@.insert(key, *final(r->Some_0)),
            r is None ==> (*final(self))@ == (*old(self))@,
    { unimplemented!() }
}

// ---- the byte buffer (teehistorian::raw::Buffer): read_kind / read_item decode the next item from the stream ----
#[verifier::external_body]
pub struct Buffer { _p: () }
impl Buffer {
    #[verifier::external_body]
    fn read_kind<CB: Callback>(&mut self, cb: &mut CB, version: Version) -> (r: Result<Kind, Error<CB::Error>>)
    { unimplemented!() }
    // the item read has the announced kind's cid (item::Kind::decode_rest passes the cid on)
    #[verifier::external_body]
    fn read_item<'a, CB: Callback>(&'a mut self, cb: &mut CB, kind: Kind) -> (r: Result<FItem<'a>, Error<CB::Error>>)
        ensures r is Ok ==> kind_matches(kind, r->Ok_0),
    { unimplemented!() }
}
pub open spec fn kind_matches(kind: Kind, item: FItem) -> bool {
    match kind {
        Kind::PlayerDiff(c) => item is PlayerDiff && item->PlayerDiff_0.cid == c,
        Kind::PlayerNew(c) => item is PlayerNew && item->PlayerNew_0.cid == c,
        Kind::PlayerOld(c) => item is PlayerOld && item->PlayerOld_0.cid == c,
        Kind::Finish => item is Finish,
        Kind::TickSkip => item is TickSkip,
        _ => !(item is PlayerDiff) && !(item is PlayerNew) && !(item is PlayerOld) && !(item is Finish) && !(item is TickSkip),
    }
}
impl<'a> FItem<'a> {
    #[verifier::external_body]
    pub fn cid(&self) -> (r: Option<i32>) { unimplemented!() }
}
pub open spec fn wrap32(x: int) -> i32 {
    if x > 0x7fff_ffff { (x - 0x1_0000_0000) as i32 } else if x < -0x8000_0000 { (x + 0x1_0000_0000) as i32 } else { x as i32 }
}
pub open spec fn wadd32(a: i32, b: i32) -> i32 { wrap32(a + b) }
// `for (i, d) in zip_eq(input.iter_mut(), i.diff.iter()) { *i = i.wrapping_add(*d); }`
fn vx_add_inputs(input: &mut [i32; 10], diff: &[i32; 10])
    ensures forall|k: int| 0 <= k < 10 ==> (*final(input))[k] == wadd32((*old(input))[k], diff[k]),
{
    let mut k: usize = 0;
    while k < 10
        invariant k <= 10,
            forall|j: int| 0 <= j < k ==> input[j] == wadd32((*old(input))[j], diff[j]),
            forall|j: int| k <= j < 10 ==> input[j] == (*old(input))[j],
        decreases 10 - k,
    {
        input[k] = input[k].wrapping_add(diff[k]);
        k += 1;
    }
}
fn vx_max(a: i32, b: i32) -> (r: i32) ensures r == (if a >= b { a } else { b }), { if a >= b { a } else { b } }
