// ---- unit teehist_buf: the byte-stream layer of the teehistorian reader (C17, fragmentation independence) --------------------------
// View: the reader's logical stream is what the read callback has DELIVERED so far (ghost log on the Callback trait, in order);
// `consumed` bytes of it have been decoded, the rest sits in buffer[offset..].  The layer never drops, reorders or re-reads a byte:
//     consumed(buf) + unread(buf) == delivered(cb)          (stream_inv)
// whatever sizes the callback delivers in.  Item decoders (format/item.rs) are by contract: they look only at the bytes they are given.
use vstd::std_specs::iter::IteratorSpec;
mod format { pub use super::{FError as Error, Version}; }
mod item { pub use super::{Kind, UnknownType}; }
#[derive(Clone, Copy)]
pub struct Version;
pub struct UnknownType;
pub struct Kind { _p: () }
pub enum FError { UnexpectedEnd, Other }
pub enum MaybeEnd<E> { Err(E), UnexpectedEnd }
pub struct CapacityError;

// the read callback with a ghost log of everything it has delivered
pub trait Callback {
    type Error;
    spec fn delivered(&self) -> Seq<u8>;
    /// `Ok(Some(n))`: n bytes were stored at the front of `buffer` (n <= buffer.len(): documented); `Ok(None)`: end of stream
    fn read_at_most(&mut self, buffer: &mut [u8]) -> (r: Result<Option<usize>, Self::Error>)
        ensures
            final(buffer)@.len() == old(buffer)@.len(),
            r is Ok && r->Ok_0 is Some ==> r->Ok_0->Some_0 <= old(buffer)@.len()
                && (*final(self)).delivered() == (*old(self)).delivered() + final(buffer)@.take(r->Ok_0->Some_0 as int),
            !(r is Ok && r->Ok_0 is Some) ==> (*final(self)).delivered() == (*old(self)).delivered();
}
// CallbackExt::read_buffer(&mut Vec<u8>) = with_buffer(vec, read_buffer_ref): the Vec backing store (C19, bounded) appends what was
// marked initialized
#[verifier::external_body]
fn vx_read_buffer<CB: Callback>(cb: &mut CB, v: &mut Vec<u8>) -> (r: Result<Option<usize>, CB::Error>)
    ensures
        (*final(v))@.len() <= usize::MAX,
        r is Ok && r->Ok_0 is Some ==> (*final(v))@.len() >= (*old(v))@.len()
            && (*final(v))@.take((*old(v))@.len() as int) == (*old(v))@
            && (*final(cb)).delivered() == (*old(cb)).delivered() + (*final(v))@.skip((*old(v))@.len() as int),
        !(r is Ok && r->Ok_0 is Some) ==> (*final(v))@ == (*old(v))@ && (*final(cb)).delivered() == (*old(cb)).delivered(),
{ unimplemented!() }
pub enum Error<CE> { Teehistorian(FError), Cb(CE) }
#[verifier::external_body]
fn vx_capacity(v: &Vec<u8>) -> (r: usize) ensures r >= v@.len(), { v.capacity() }
#[verifier::external_body]
fn vx_reserve(v: &mut Vec<u8>, n: usize) ensures (*final(v))@ == (*old(v))@, { v.reserve(n) }
// self.buffer.drain(0..n);
#[verifier::external_body]
fn vx_drain_front(v: &mut Vec<u8>, n: usize)
    requires n <= (*old(v))@.len(),
    ensures (*final(v))@ == (*old(v))@.skip(n as int),
{ v.drain(0..n); }
// Unpacker over a byte slice + Kind::decode: by contract -- the decoder consumes a prefix of what it is given
#[verifier::external_body]
pub struct Unpacker<'a> { _p: core::marker::PhantomData<&'a [u8]> }
impl<'a> Unpacker<'a> {
    pub uninterp spec fn total(&self) -> nat;
    pub uninterp spec fn read(&self) -> nat;
    #[verifier::external_body]
    pub fn new(data: &'a [u8]) -> (r: Unpacker<'a>) ensures r.total() == data@.len(), r.read() == 0, { unimplemented!() }
    #[verifier::external_body]
    pub fn num_bytes_read(&self) -> (r: usize) ensures r == self.read(), self.read() <= self.total(), { unimplemented!() }
}
impl Kind {
    #[verifier::external_body]
    pub fn decode(p: &mut Unpacker, version: Version) -> (r: Result<Kind, MaybeEnd<UnknownType>>)
        ensures (*final(p)).total() == (*old(p)).total(), (*final(p)).read() <= (*final(p)).total(),
    { unimplemented!() }
}
impl Buffer {
    // bytes delivered but not yet decoded
    spec fn unread(&self) -> Seq<u8> { self.buffer@.skip(self.offset as int) }
    spec fn wf(&self) -> bool { self.offset <= self.buffer@.len() && self.buffer@.len() <= usize::MAX }
}
// consumed ++ unread == delivered, for a ghost `consumed`
spec fn stream_inv<CB: Callback>(b: Buffer, cb: CB, consumed: Seq<u8>) -> bool { b.wf() && consumed + b.unread() == cb.delivered() }
#[verifier::external_body]
fn vx_unknown_type<CE>(x: UnknownType) -> Error<CE> { unimplemented!() }
