// ======================= prelude of unit conn7 ====================================
// Hand-written (trusted) context for net/src/connection.rs: the Callback trait with
// a ghost log of what was sent, abstract Timeout/Duration, the protocol-level
// functions used through their contracts (proved in pkt_write7 / pkt_parse7 /
// pkt_read7 / Kani seq harnesses).

mod protocol { pub use super::*; }
use std::collections::VecDeque;
// core::cmp::min::<Timeout>: ordering of Timeout proved by Kani complete_timeout_order (inactive is the maximum)
mod cmp {
    use vstd::prelude::*;
    use super::Timeout;
    #[verifier::external_body]
    pub fn min(a: Timeout, b: Timeout) -> (r: Timeout)
        ensures r == a || r == b, (a.is_active_spec() || b.is_active_spec()) ==> r.is_active_spec(),
    { unimplemented!() }
}


// ---- net/src/connection.rs `pub trait Callback` + ghost log ------------------------
pub trait Callback {
    type Error;
    spec fn sent(&self) -> Seq<Seq<u8>>;
    fn secure_random(&mut self, buffer: &mut [u8])
        ensures (*final(self)).sent() == (*old(self)).sent(), (*final(buffer))@.len() == (*old(buffer))@.len();
    fn send(&mut self, buffer: &[u8]) -> (r: Result<(), Self::Error>)
        ensures (*final(self)).sent() == (*old(self)).sent().push(buffer@);
    fn time(&mut self) -> (r: Timestamp)
        ensures (*final(self)).sent() == (*old(self)).sent();
}

// ---- net/src/time.rs: Timestamp, Timeout (ordering proved by Kani complete_timeout_order) ----
#[derive(Clone, Copy)]
pub struct Timestamp { usec: u64 }
#[verifier::external_body]
#[derive(Clone, Copy)]
pub struct Timeout { _t: u64 }
impl Timeout {
    pub uninterp spec fn is_active_spec(&self) -> bool;
    #[verifier::external_body]
    pub fn inactive() -> (r: Timeout) ensures !r.is_active_spec(), { unimplemented!() }
    #[verifier::external_body]
    pub fn active(t: Timestamp) -> (r: Timeout) ensures r.is_active_spec(), { unimplemented!() }
}
pub struct Duration { _ms: u64 }
impl Duration {
    #[verifier::external_body]
    pub fn from_millis(ms: u64) -> Duration { unimplemented!() }
}
// connection.rs `trait TimeoutExt` / `impl TimeoutExt for Timeout` (closure-capturing bodies are not extracted)
// assumption: cb.time() + value does not overflow (clock below 2^62 microseconds)
trait TimeoutExt: Sized {
    spec fn active(&self) -> bool;
    fn set<CB: Callback>(&mut self, cb: &mut CB, value: Duration)
        ensures (*final(cb)).sent() == (*old(cb)).sent(), (*final(self)).active();
    fn has_triggered_level<CB: Callback>(&self, cb: &mut CB) -> (r: bool)
        ensures (*final(cb)).sent() == (*old(cb)).sent(), r ==> self.active();
    fn has_triggered_edge<CB: Callback>(&mut self, cb: &mut CB) -> (r: bool)
        ensures (*final(cb)).sent() == (*old(cb)).sent(),
            r ==> (*old(self)).active() && !(*final(self)).active(),
            !r ==> (*final(self)) == (*old(self));
}
impl TimeoutExt for Timeout {
    spec fn active(&self) -> bool { self.is_active_spec() }
    #[verifier::external_body]
    fn set<CB: Callback>(&mut self, cb: &mut CB, value: Duration) { unimplemented!() }
    #[verifier::external_body]
    fn has_triggered_level<CB: Callback>(&self, cb: &mut CB) -> (r: bool) { unimplemented!() }
    #[verifier::external_body]
    fn has_triggered_edge<CB: Callback>(&mut self, cb: &mut CB) -> (r: bool) { unimplemented!() }
}

// ghost: spec of `impl<CE> From<CE> for Error<CE>` (the exec impl is extracted and checked against it)
impl<CE> vstd::std_specs::convert::FromSpecImpl<CE> for Error<CE> {
    open spec fn obeys_from_spec() -> bool { true }
    open spec fn from_spec(e: CE) -> Error<CE> { Error::Callback(e) }
}

// ---- representation invariants --------------------------------------------------------
impl Sequence { spec fn wf(&self) -> bool { self.seq < 1024 } }
impl PacketContents {
    spec fn wf(&self) -> bool {
        &&& self.data.wf()
        &&& self.data@.len() <= 1393
        &&& (self.num_chunks == 0 <==> self.data@.len() == 0)
        &&& 2 * self.num_chunks <= self.data@.len()
    }
}
spec fn chunk_wire_len(bytes: Seq<u8>, vital: Option<(u16, bool)>) -> int {
    (if vital.is_some() { 3int } else { 2int }) + bytes.len()
}
spec fn ch_flags(b0: u8) -> u8 { (b0 & 0b1100_0000) >> 6 }
spec fn ch_size(b0: u8, b1: u8) -> u16 { (((b0 & 0b0011_1111) as u16) << 6) | ((b1 & 0b0011_1111) as u16) }
spec fn ch_seq(b1: u8, b2: u8) -> u16 { (((b1 & 0b1100_0000) as u16) << 2) | ((b2 & 0b1111_1111) as u16) }
spec fn is_vital(b0: u8) -> bool { ch_flags(b0) & CHUNKFLAG_VITAL != 0 }
spec fn chunk_hl(d: Seq<u8>) -> int { if is_vital(d[0]) { 3 } else { 2 } }
spec fn chunk_fits(d: Seq<u8>) -> bool { d.len() >= 2 && d.len() >= chunk_hl(d) + ch_size(d[0], d[1]) }
impl<'a> ChunksIter<'a> {
    spec fn wf(&self) -> bool {
        &&& self.data@.len() <= self.initial_len
        &&& self.initial_len <= 0x7fff_ffff
        &&& self.num_remaining_chunks <= 255
        &&& 2 * self.num_remaining_chunks + (self.initial_len - self.data@.len()) >= 0
    }
}
// the chunk written at offset n0 of `out` is (header for (len, vital)) ++ bytes -- write_chunk_impl's postcondition
spec fn chunk_bytes_ok(out: Seq<u8>, n0: int, bytes: Seq<u8>, vital: Option<(u16, bool)>) -> bool {
    let hl: int = if vital.is_some() { 3 } else { 2 };
    &&& out.len() == n0 + hl + bytes.len()
    &&& out.subrange(n0 + hl, out.len() as int) == bytes
    &&& ch_size(out[n0], out[n0 + 1]) == bytes.len()
    &&& (is_vital(out[n0]) <==> vital.is_some())
    &&& (vital.is_some() ==> ch_seq(out[n0 + 1], out[n0 + 2]) == vital.unwrap().0
            && (ch_flags(out[n0]) & CHUNKFLAG_RESEND != 0) == vital.unwrap().1)
}

// protocol::write_chunk(bytes, vital, &mut ArrayVec): with_buffer glue around write_chunk_impl (unit pkt_write7)
#[verifier::external_body]
fn write_chunk<'x, A>(bytes: &[u8], vital: Option<(u16, bool)>, buffer: &'x mut ArrayVec<A>) -> (r: Result<&'x [u8], CapacityError>)
    requires
        (*old(buffer)).wf(),
        bytes@.len() < 4096,
        vital.is_some() ==> vital.unwrap().0 < 1024,
    ensures
        (*final(buffer)).wf(),
        r.is_ok() <==> chunk_wire_len(bytes@, vital) <= 2048 - (*old(buffer))@.len(),
        r.is_ok() ==> (*final(buffer))@.subrange(0, (*old(buffer))@.len() as int) == (*old(buffer))@
            && chunk_bytes_ok((*final(buffer))@, (*old(buffer))@.len() as int, bytes@, vital),
{ unimplemented!() }

// what Packet::write accepts without panicking (requires of pkt_write7 contracts)
spec fn packet_writable(p: Packet) -> bool {
    match p {
        Packet::Connless(d) => true,
        Packet::Connected(c) => c.ack < 1024 && match c.type_ {
            ConnectedPacketType::Chunks(_, _, payload) => payload@.len() <= 1393,
            ConnectedPacketType::Control(ctrl) => control_ok(ctrl),
        },
    }
}
// relation between a packet value and the bytes handed to the send callback (ensures of pkt_write7 contracts)
spec fn packet_on_wire(p: Packet, out: Seq<u8>) -> bool {
    match p {
        Packet::Connless(d) => out.len() == 9 + d.payload@.len() && out.subrange(9, out.len() as int) == d.payload@,
        Packet::Connected(c) => match c.type_ {
            ConnectedPacketType::Chunks(rr, num, payload) => out.len() >= 3 && out[2] == num,
            ConnectedPacketType::Control(ctrl) => true,
        },
    }
}
impl<'a> Packet<'a> {
    // Packet::write(&self, buffer: B) with B = &mut [u8; 1400]
    #[verifier::external_body]
    fn write<'b>(&self, buffer: &'b mut [u8; 1400]) -> (r: Result<&'b [u8], ProtocolError>)
        requires packet_writable(*self),
        ensures
            *self is Connected ==> r is Ok,
            *self is Connless && self->Connless_0.payload@.len() > 1390 ==> r is Err && r.unwrap_err() is TooLongData,
            *self is Connless && self->Connless_0.payload@.len() <= 1390 ==> r is Ok,
            r is Ok ==> r.unwrap()@.len() <= 1400 && packet_on_wire(*self, r.unwrap()@),
    { unimplemented!() }
}
// stand-in for `#[derive(Clone)] struct PacketContents` (field-wise clone) and arrayvec's Clone
impl Clone for PacketContents {
    fn clone(&self) -> (r: Self) ensures r == *self,
    { PacketContents { num_chunks: self.num_chunks, data: self.data.clone() } }
}

impl ResendChunk {
    spec fn wf(&self) -> bool { self.sequence.wf() && self.data.wf() && self.data@.len() <= 1390 }
}
impl OnlineState {
    spec fn wf(&self) -> bool {
        &&& self.ack.wf()
        &&& self.sequence.wf()
        &&& self.packet.wf()
        &&& self.packet_nonvital.wf()
        &&& self.packet_nonvital.data@.len() <= self.packet.data@.len()
        &&& self.packet_nonvital.num_chunks <= self.packet.num_chunks
        &&& forall|i: int| 0 <= i < self.resend_queue@.len() ==> (#[trigger] self.resend_queue@[i]).wf()
    }
}
// index of the first queue entry (newest first) whose sequence number equals `ack`
spec fn first_with_seq(q: Seq<ResendChunk>, ack: Sequence) -> Option<int>
    decreases q.len()
{
    if q.len() == 0 { None }
    else if q[0].sequence == ack { Some(0int) }
    else { match first_with_seq(q.subrange(1, q.len() as int), ack) { Some(i) => Some(i + 1), None => None } }
}
// resend_queue.iter().position(|chunk| chunk.sequence == ack): loop implementation, verified against first_with_seq
fn vx_position_seq(q: &VecDeque<ResendChunk>, ack: Sequence) -> (r: Option<usize>)
    ensures
        r.is_some() ==> r.unwrap() < q@.len() && first_with_seq(q@, ack) == Some(r.unwrap() as int),
        r.is_none() ==> first_with_seq(q@, ack).is_none(),
{
    let mut i: usize = 0;
    while i < q.len()
        invariant
            i <= q@.len(),
            forall|j: int| 0 <= j < i ==> q@[j].sequence != ack,
        decreases q@.len() - i,
    {
        if q[i].sequence.seq == ack.seq {
            proof { lemma_first_with_seq(q@, ack, i as int); }
            return Some(i);
        }
        i += 1;
    }
    proof { lemma_first_with_seq_none(q@, ack); }
    None
}
proof fn lemma_first_with_seq(q: Seq<ResendChunk>, ack: Sequence, i: int)
    requires 0 <= i < q.len(), q[i].sequence == ack, forall|j: int| 0 <= j < i ==> q[j].sequence != ack,
    ensures first_with_seq(q, ack) == Some(i),
    decreases i
{
    if i == 0 { } else {
        let t = q.subrange(1, q.len() as int);
        assert(forall|j: int| 0 <= j < i - 1 ==> t[j] == q[j + 1]);
        lemma_first_with_seq(t, ack, i - 1);
    }
}
proof fn lemma_first_with_seq_none(q: Seq<ResendChunk>, ack: Sequence)
    requires forall|j: int| 0 <= j < q.len() ==> q[j].sequence != ack,
    ensures first_with_seq(q, ack).is_none(),
    decreases q.len()
{
    if q.len() == 0 { } else {
        let t = q.subrange(1, q.len() as int);
        assert(forall|j: int| 0 <= j < t.len() ==> t[j] == q[j + 1]);
        lemma_first_with_seq_none(t, ack);
    }
}
// data.iter().cloned().collect::<ArrayVec<[u8; 2048]>>(): copies min(len, 2048) bytes
#[verifier::external_body]
fn vx_collect_arrayvec<A>(data: &[u8]) -> (r: ArrayVec<A>)
    ensures r.wf(), data@.len() <= 2048 ==> r@ == data@, data@.len() > 2048 ==> r@ == data@.subrange(0, 2048),
{ unimplemented!() }

// the token this endpoint fixed for the peer (carried by every datagram from the peer), if any
spec fn state_own_token(s: State) -> Option<Token> {
    match s {
        State::Token(t) => Some(t.own_token),
        State::PendingConnect(p) => Some(p.own_token),
        State::Connecting(c) => Some(c.own_token),
        State::Pending(p) => Some(p.own_token),
        State::Online(o) => Some(o.own_token),
        _ => None,
    }
}
spec fn state_their_token(s: State) -> Option<Token> {
    match s {
        State::Connecting(c) => Some(c.their_token),
        State::Pending(p) => Some(p.their_token),
        State::Online(o) => Some(o.their_token),
        _ => None,
    }
}
// what ControlPacket::write accepts without panicking
spec fn control_ok(c: ControlPacket) -> bool {
    &&& (c is Close ==> c->Close_0@.len() <= 127 && (forall|i: int| 0 <= i < c->Close_0@.len() ==> c->Close_0@[i] != 0))
    &&& (c is Connect ==> c->Connect_0 != TOKEN_NONE)
    &&& (c is Token ==> c->Token_0 != TOKEN_NONE)
}
fn vx_is_control_token(t: &ConnectedPacketType) -> (r: bool)
    ensures r == (*t is Control && t->Control_0 is Token),
{ match *t { ConnectedPacketType::Control(ControlPacket::Token(_)) => true, _ => false } }
fn vx_is_pending_connect(s: &State) -> (r: bool)
    ensures r == (*s is PendingConnect),
{ match *s { State::PendingConnect(_) => true, _ => false } }
impl Connection {
    // own tokens are never TOKEN_NONE (Token::random), so the writer's assert on response tokens holds
    spec fn wf(&self) -> bool {
        match self.state {
            State::Online(o) => o.wf(),
            State::Token(t) => t.own_token != TOKEN_NONE,
            State::PendingConnect(p) => p.own_token != TOKEN_NONE,
            State::Connecting(c) => c.own_token != TOKEN_NONE,
            _ => true,
        }
    }
    // C02: while mid-handshake or online the send timer is armed (so needs_tick reports a finite deadline)
    spec fn timer_ok(&self) -> bool {
        (self.state is Token || self.state is Connecting || self.state is Pending || self.state is Online) ==> self.send.is_active_spec()
    }
}
spec fn same_kind(a: State, b: State) -> bool {
    (a is Unconnected <==> b is Unconnected) && (a is Connecting <==> b is Connecting) && (a is Pending <==> b is Pending)
        && (a is Online <==> b is Online) && (a is Disconnected <==> b is Disconnected)
        && (a is Token <==> b is Token) && (a is PendingConnect <==> b is PendingConnect)
}
// everything but the pending packet / request_resend flag is unchanged (what a flush may touch)
spec fn online_same_but_packet(o: OnlineState, n: OnlineState) -> bool {
    n.own_token == o.own_token && n.their_token == o.their_token && n.ack == o.ack && n.sequence == o.sequence && n.resend_queue == o.resend_queue
}
// the send log grew by at most one datagram of at most 1400 bytes
spec fn sent_at_most_one(before: Seq<Seq<u8>>, after: Seq<Seq<u8>>) -> bool {
    after == before || (after.len() == before.len() + 1 && after.subrange(0, before.len() as int) == before && after.last().len() <= 1400)
}

// `after` is `before` plus zero or more datagrams of at most 1400 bytes each
spec fn sent_extends(before: Seq<Seq<u8>>, after: Seq<Seq<u8>>) -> bool {
    &&& after.len() >= before.len()
    &&& after.subrange(0, before.len() as int) =~= before
    &&& forall|i: int| before.len() <= i < after.len() ==> (#[trigger] after[i]).len() <= 1400
}
// same chunks (sequence number and bytes) in the same order; timers may differ
spec fn queue_same_chunks(a: Seq<ResendChunk>, b: Seq<ResendChunk>) -> bool {
    &&& a.len() == b.len()
    &&& forall|i: int| 0 <= i < a.len() ==> (#[trigger] a[i]).sequence == b[i].sequence && a[i].data == b[i].data
}

proof fn lemma_sent_extends_step(s0: Seq<Seq<u8>>, mid: Seq<Seq<u8>>, after: Seq<Seq<u8>>)
    requires sent_extends(s0, mid), sent_at_most_one(mid, after) || sent_extends(mid, after),
    ensures sent_extends(s0, after),
{
    assert(after.subrange(0, s0.len() as int) =~= s0) by {
        assert(forall|i: int| 0 <= i < s0.len() ==> after[i] == mid.subrange(0, s0.len() as int)[i]) by {
            assert(forall|i: int| 0 <= i < mid.len() ==> after[i] == after.subrange(0, mid.len() as int)[i]);
        }
    }
    assert forall|i: int| s0.len() <= i < after.len() implies (#[trigger] after[i]).len() <= 1400 by {
        if i < mid.len() { assert(after[i] == after.subrange(0, mid.len() as int)[i]); }
    }
}

// VecDeque::back (no vstd spec in this build): last element or None
fn vx_back<T>(q: &VecDeque<T>) -> (r: Option<&T>)
    ensures q@.len() == 0 <==> r.is_none(), r.is_some() ==> *r.unwrap() == q@[q@.len() - 1],
{
    if q.len() == 0 { None } else { Some(&q[q.len() - 1]) }
}
// <Timeout as Default>::default() == Timeout::inactive()   (Kani complete_timeout_order)
#[verifier::external_body]
fn vx_timeout_default() -> (r: Timeout) ensures !r.is_active_spec(), { unimplemented!() }

// stand-in for core::iter::{Once, once} (only constructed here; the Iterator impls are not under contract)
mod iter {
    use vstd::prelude::*;
    pub struct Once<T> { pub v: Option<T> }
    pub fn once<T>(t: T) -> (r: Once<T>) ensures r.v == Some(t), { Once { v: Some(t) } }
}
// ghost: warning counter of the WarnCallback adapter = counter of the wrapped sink
impl<'a, W: Warn<Warning>> WarnCallback<'a, W> {
    spec fn count(&self) -> nat { self.warn.count() }
}
impl<'a, W: Warn<Warning>> Warn<ProtocolWarning> for WarnCallback<'a, W> {
    closed spec fn count(&self) -> nat { self.warn.count() }
    // connection.rs: `self.warn.warn(Warning::Packet(warning))`
    #[verifier::external_body]
    fn warn(&mut self, warning: ProtocolWarning) { unimplemented!() }
}
// <ChunksIter as Clone>::clone (derived)
#[verifier::external_body]
fn vx_clone_iter<'a>(i: &ChunksIter<'a>) -> (r: ChunksIter<'a>) ensures r == *i, { unimplemented!() }

// acknowledged sequence number after the receiver has walked the chunks of payload `d` starting from `ack`
spec fn acks_after(d: Seq<u8>, ack: u16) -> u16
    decreases d.len()
{
    if !chunk_fits(d) { ack } else {
        let hl = chunk_hl(d);
        let size = ch_size(d[0], d[1]) as int;
        let rest = d.subrange(hl + size, d.len() as int);
        let ack2 = if is_vital(d[0]) && ch_seq(d[1], d[2]) == (ack + 1) % 1024 { ch_seq(d[1], d[2]) } else { ack };
        acks_after(rest, ack2)
    }
}

// ---- Packet::read = with_buffer glue around Packet::read_impl (unit pkt_parse7) ------------------
// `spec_read` names the parse result as a function of the datagram and the token hint
// (Packet::read takes neither the connection nor the callback: by typing it cannot touch them).
pub uninterp spec fn spec_read<'b>(bytes: Seq<u8>) -> Result<Packet<'b>, PacketReadError>;
impl<'a> Packet<'a> {
    #[verifier::external_body]
    fn read<'b, 's, 'x, W: Warn<ProtocolWarning>>(warn: &mut W, bytes: &'b [u8], buffer: &'x mut BufferRef<'b, 's>)
        -> (r: Result<Packet<'b>, PacketReadError>)
        requires (*old(buffer)).wf(), (*old(buffer)).init().len() == 0, (*old(buffer)).cap() >= 1400,
        ensures
            r == spec_read::<'b>(bytes@),
            // facts from the contract of read_impl (pkt_parse7)
            r is Ok ==> match r->Ok_0 {
                Packet::Connless(p) => true,
                Packet::Connected(c) => {
                    &&& c.ack < 1024
                    &&& match c.type_ {
                        ConnectedPacketType::Chunks(_, _, payload) => payload@.len() <= 1393,
                        ConnectedPacketType::Control(ControlPacket::Close(reason)) =>
                            reason@.len() <= 127 && (forall|i: int| 0 <= i < reason@.len() ==> reason@[i] != 0),
                        _ => true,
                    }
                },
            },
    { unimplemented!() }
}
// Token::random(|b| cb.secure_random(b)): closure capturing `cb` mutably; Token::random itself is verified above
#[verifier::external_body]
fn vx_token_random<CB: Callback>(cb: &mut CB) -> (r: Token)
    ensures r != TOKEN_NONE, (*final(cb)).sent() == (*old(cb)).sent(),
{ unimplemented!() }

// ---- delivery to the application ------------------------------------------------------------------------------------
// deliver(d, ack): what ReceiveChunks::next hands out from payload `d` when the replayed acknowledged sequence number is `ack`:
// (chunk bytes, vital?, ack afterwards, remaining payload) -- or None when no further chunk is delivered.
spec fn deliver(d: Seq<u8>, ack: u16) -> Option<(Seq<u8>, bool, u16, Seq<u8>)>
    decreases d.len()
{
    if !chunk_fits(d) { None } else {
        let hl = chunk_hl(d);
        let size = ch_size(d[0], d[1]) as int;
        let rest = d.subrange(hl + size, d.len() as int);
        let data = d.subrange(hl, hl + size);
        if is_vital(d[0]) {
            if ch_seq(d[1], d[2]) == (ack + 1) % 1024 { Some((data, true, ch_seq(d[1], d[2]), rest)) } else { deliver(rest, ack) }
        } else { Some((data, false, ack, rest)) }
    }
}
// the replayed ack after the application has drained the iterator
spec fn drained_ack(d: Seq<u8>, ack: u16) -> u16
    decreases d.len()
{
    if !chunk_fits(d) { ack } else {
        let hl = chunk_hl(d);
        let size = ch_size(d[0], d[1]) as int;
        let rest = d.subrange(hl + size, d.len() as int);
        match deliver(d, ack) { None => ack, Some(x) => if x.3.len() < d.len() { drained_ack(x.3, x.2) } else { ack } }
    }
}
// number of vital chunks handed to the application while draining
spec fn delivered_vital(d: Seq<u8>, ack: u16) -> nat
    decreases d.len()
{
    match deliver(d, ack) { None => 0, Some(x) => if x.3.len() < d.len() { (if x.1 { 1nat } else { 0nat }) + delivered_vital(x.3, x.2) } else { 0 } }
}
proof fn lemma_deliver_shrinks(d: Seq<u8>, ack: u16)
    ensures deliver(d, ack) is Some ==> deliver(d, ack)->Some_0.3.len() < d.len(),
    decreases d.len()
{
    if chunk_fits(d) {
        let hl = chunk_hl(d); let size = ch_size(d[0], d[1]) as int;
        let rest = d.subrange(hl + size, d.len() as int);
        if is_vital(d[0]) && ch_seq(d[1], d[2]) != (ack + 1) % 1024 { lemma_deliver_shrinks(rest, ack); }
    }
}
// COMPOSITION of the two passes over a received payload: the ack recorded by ReceivePacket::connected (acks_after) is exactly the
// ack the application's replay ends with (drained_ack) -- every vital chunk that was acknowledged is handed out, and none is handed
// out that was not acknowledged -- and the ack moved by exactly the number of vital chunks delivered (mod 1024).
proof fn lemma_ack_equals_delivery(d: Seq<u8>, ack: u16)
    requires ack < 1024,
    ensures
        acks_after(d, ack) == drained_ack(d, ack),
        acks_after(d, ack) as int == (ack + delivered_vital(d, ack)) % 1024,
        acks_after(d, ack) < 1024,
    decreases d.len()
{
    if chunk_fits(d) {
        let hl = chunk_hl(d); let size = ch_size(d[0], d[1]) as int;
        let rest = d.subrange(hl + size, d.len() as int);
        lemma_deliver_shrinks(d, ack);
        if is_vital(d[0]) {
            let s = ch_seq(d[1], d[2]);
            if s == (ack + 1) % 1024 {
                lemma_ack_equals_delivery(rest, s);
                assert((ack + 1 + delivered_vital(rest, s)) % 1024 == (((ack + 1) % 1024) + delivered_vital(rest, s)) % 1024) by (nonlinear_arith);
            } else {
                lemma_ack_equals_delivery(rest, ack);
                lemma_drain_skip(d, ack);
            }
        } else {
            lemma_ack_equals_delivery(rest, ack);
        }
    }
}
// skipping an out-of-order vital chunk at the front changes nothing for the replay
proof fn lemma_drain_skip(d: Seq<u8>, ack: u16)
    requires chunk_fits(d), is_vital(d[0]), ch_seq(d[1], d[2]) != (ack + 1) % 1024,
    ensures ({
        let rest = d.subrange(chunk_hl(d) + ch_size(d[0], d[1]) as int, d.len() as int);
        drained_ack(d, ack) == drained_ack(rest, ack) && delivered_vital(d, ack) == delivered_vital(rest, ack)
    }),
{
    let rest = d.subrange(chunk_hl(d) + ch_size(d[0], d[1]) as int, d.len() as int);
    lemma_deliver_shrinks(d, ack);
    lemma_deliver_shrinks(rest, ack);
    assert(deliver(d, ack) == deliver(rest, ack));
    if deliver(rest, ack) is Some {
        if !chunk_fits(rest) { assert(false); }
    } else {
        if chunk_fits(rest) { } else { }
    }
}
