// ---- C09 at whole-snapshot level, as a lemma over the two contracts -------------------------------------
// If `delta` satisfies the postcondition of Delta::create_raw(from, to) and `out` satisfies the postcondition of
// RawSnap::read_with_delta(from, delta), then `out` has exactly the items of `to` with exactly their data.
proof fn lemma_item_delta_inverse(f: i32, t: i32)
    ensures wadd(f, wsub(t, f)) == t,
{
}
spec fn created(from: &RawSnap, to: &RawSnap, delta: &Delta, k: i32) -> bool {
    let d = delta.update_data(k);
    &&& d.len() == to.item_data(k).len()
    &&& (from.offsets@.contains_key(k) ==> forall|j: int| 0 <= j < d.len() ==> d[j] == wsub(to.item_data(k)[j], from.item_data(k)[j]))
    &&& (!from.offsets@.contains_key(k) ==> d == to.item_data(k))
}
proof fn lemma_delta_roundtrip(from: &RawSnap, to: &RawSnap, delta: &Delta, out: &RawSnap)
    requires
        // sizes of common items agree (precondition of create_raw)
        forall|k: i32| from.offsets@.contains_key(k) && to.offsets@.contains_key(k) ==> from.item_data(k).len() == to.item_data(k).len(),
        // postcondition of Delta::create_raw(from, to)
        forall|k: i32| delta.deleted_items@.contains(k) <==> from.offsets@.contains_key(k) && !to.offsets@.contains_key(k),
        forall|k: i32| delta.updated_items@.contains_key(k) <==> to.offsets@.contains_key(k),
        forall|k: i32| to.offsets@.contains_key(k) ==> created(from, to, delta, k),
        // postcondition of RawSnap::read_with_delta(from, delta) == Ok
        forall|k: i32| #[trigger] out.offsets@.contains_key(k) <==>
            (from.offsets@.contains_key(k) && !delta.deleted_items@.contains(k)) || delta.updated_items@.contains_key(k),
        forall|k: i32| delta.updated_items@.contains_key(k) ==> patched(from, delta, #[trigger] out.item_data(k), k),
    ensures
        forall|k: i32| out.offsets@.contains_key(k) <==> to.offsets@.contains_key(k),
        forall|k: i32| to.offsets@.contains_key(k) ==> out.item_data(k) =~= to.item_data(k),
{
    assert forall|k: i32| to.offsets@.contains_key(k) implies out.item_data(k) =~= to.item_data(k) by {
        assert(created(from, to, delta, k));
        assert(patched(from, delta, out.item_data(k), k));
        let d = delta.update_data(k);
        if from.offsets@.contains_key(k) {
            assert forall|j: int| 0 <= j < d.len() implies out.item_data(k)[j] == to.item_data(k)[j] by {
                lemma_item_delta_inverse(from.item_data(k)[j], to.item_data(k)[j]);
            }
        }
    }
}
