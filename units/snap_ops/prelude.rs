use std::collections::BTreeMap;
use std::collections::BTreeSet;
mod ops { pub use core::ops::Range; }
mod libtw2_packer { pub struct IntOutOfRange; }

#[derive(Debug)]
pub struct UnexpectedEnd;

spec fn k_type(key: i32) -> u16 { (((key as u32) >> 16) & 0xffff) as u16 }
spec fn k_id(key: i32) -> u16 { ((key as u32) & 0xffff) as u16 }
spec fn mk_key(t: u16, id: u16) -> i32 { (((t as u32) << 16) | (id as u32)) as i32 }
spec fn wrap32(x: int) -> i32 {
    if x > 0x7fff_ffff { (x - 0x1_0000_0000) as i32 } else if x < -0x8000_0000 { (x + 0x1_0000_0000) as i32 } else { x as i32 }
}
spec fn wadd(a: i32, b: i32) -> i32 { wrap32(a + b) }
spec fn wsub(a: i32, b: i32) -> i32 { wrap32(a - b) }

// snapshot/src/lib.rs: fn to_usize(r: Range<u32>) -> Range<usize>
fn to_usize(r: ops::Range<u32>) -> (o: ops::Range<usize>) ensures o.start == r.start, o.end == r.end,
{ (r.start as usize)..(r.end as usize) }

// snapshot/src/read_int.rs `trait ReadInt` + ghost count of ints left
pub trait ReadInt {
    spec fn left(&self) -> nat;
    fn is_empty(&self) -> (r: bool) ensures r == (self.left() == 0);
    fn read_int<W: Warn<Warning>>(&mut self, warn: &mut W) -> (r: Result<i32, UnexpectedEnd>)
        ensures
            r is Ok ==> (*old(self)).left() >= 1 && (*final(self)).left() == (*old(self)).left() - 1,
            r is Err ==> (*final(self)).left() <= (*old(self)).left();
}
impl DeltaHeader {
    // format.rs: three ints: positive, positive, padding -- shared contract, proved in unit snap_hdr
    #[verifier::external_body]
    pub fn decode_impl<W: Warn<Warning>, R: ReadInt>(warn: &mut W, reader: &mut R) -> (r: Result<DeltaHeader, Error>)
        //@contract snapshot::DeltaHeader::decode_impl
    { unimplemented!() }
}
impl Delta {
    spec fn update_data(&self, k: i32) -> Seq<i32> {
        self.buf@.subrange(self.updated_items@[k].start as int, self.updated_items@[k].end as int)
    }
    // every update range lies inside the delta's buffer
    spec fn wf(&self) -> bool {
        forall|k: i32| self.updated_items@.contains_key(k) ==>
            (#[trigger] self.updated_items@[k]).start <= self.updated_items@[k].end && self.updated_items@[k].end <= self.buf@.len()
    }
}
// ghost specs of the extracted From impls
impl vstd::std_specs::convert::FromSpecImpl<BuilderError> for Error {
    open spec fn obeys_from_spec() -> bool { true }
    open spec fn from_spec(e: BuilderError) -> Error {
        match e { BuilderError::DuplicateKey => Error::DuplicateKey, BuilderError::TooLongSnap => Error::TooLongSnap, BuilderError::TooManyItems => Error::TooManyItems }
    }
}
impl vstd::std_specs::convert::FromSpecImpl<DeltaDifferingSizes> for Error {
    open spec fn obeys_from_spec() -> bool { true }
    open spec fn from_spec(e: DeltaDifferingSizes) -> Error { Error::DeltaDifferingSizes }
}

impl RawSnap {
    // every item range lies inside the buffer; the format limits hold
    spec fn wf(&self) -> bool {
        &&& self.offsets@.len() <= 1024 && 4 * (2 + 2 * self.offsets@.len() + self.buf@.len()) <= 65536
        &&& forall|k: i32| self.offsets@.contains_key(k) ==>
                (#[trigger] self.offsets@[k]).start <= self.offsets@[k].end && self.offsets@[k].end <= self.buf@.len()
    }
    spec fn item_data(&self, k: i32) -> Seq<i32> {
        self.buf@.subrange(self.offsets@[k].start as int, self.offsets@[k].end as int)
    }
}
// iteration over a BTreeMap<i32, Range<u32>> (RawSnap::items(), `for (&k, v) in &map`): the key/value pairs, distinct keys
#[verifier::external_body]
fn vx_pairs(m: &BTreeMap<i32, ops::Range<u32>>) -> (r: Vec<(i32, ops::Range<u32>)>)
    ensures
        r@.len() == m@.len(),
        forall|j: int| 0 <= j < r@.len() ==> m@.contains_key(#[trigger] r@[j].0) && m@[r@[j].0] == r@[j].1,
        forall|a: int, b: int| 0 <= a < b < r@.len() ==> r@[a].0 != r@[b].0,
        forall|k: i32| m@.contains_key(k) ==> exists|j: int| 0 <= j < r@.len() && r@[j].0 == k,
{ unimplemented!() }
// <Range<Idx> as Clone>::clone (std: field-wise clone; used with Idx = u32)
pub assume_specification<Idx: Clone>[<core::ops::Range<Idx> as Clone>::clone](r: &core::ops::Range<Idx>) -> (o: core::ops::Range<Idx>)
    ensures o == *r,
;

// every i32 is the key of exactly its (type, id) pair: ASSUMED here (Verus leaves `negative i32 as u32` unspecified in
// spec code); proved on the real key/key_to_id/key_to_raw_type_id for all 2^32 keys by Kani complete_snap_key_inverse
#[verifier::external_body]
proof fn lemma_key_inverse(k: i32)
    ensures mk_key(k_type(k), k_id(k)) == k,
{
}

// uuid::Uuid as an opaque 128-bit value; item_data_to_uuid by contract (inverse of uuid_to_item_data: Kani complete_uuid_roundtrip)
pub type Uuid = u128;
pub uninterp spec fn spec_uuid(data: Seq<i32>) -> Option<Uuid>;
#[verifier::external_body]
fn item_data_to_uuid<W: Warn<Warning>>(warn: &mut W, data: &[i32]) -> (r: Option<Uuid>)
    ensures r == spec_uuid(data@),
{ unimplemented!() }
#[verifier::external_body]
fn vx_extend_zeros(buf: &mut Vec<i32>, n: usize)
    ensures (*final(buf))@ == (*old(buf))@ + Seq::new(n as nat, |i: int| 0i32),
{ unimplemented!() }

// `o` is the item `k` of the result of applying `delta` to `from`: the update data added (wrapping) to the base item,
// or the update data itself when the base has no such item
spec fn patched(from: &RawSnap, delta: &Delta, o: Seq<i32>, k: i32) -> bool {
    let d = delta.update_data(k);
    &&& o.len() == d.len()
    &&& (from.offsets@.contains_key(k) ==> forall|j: int| 0 <= j < d.len() ==> o[j] == wadd(from.item_data(k)[j], d[j]))
    &&& (!from.offsets@.contains_key(k) ==> o == d)
}

// ---- Snap / Builder representation invariants (C10) -----------------------------------------------------------------
pub enum TypeId { Ordinal(u16), Uuid(Uuid) }   // gamenet/common/src/snap_obj.rs (two variants, same payload types)
#[verifier::external_body]
fn uuid_to_item_data(uuid: Uuid) -> (r: [i32; 4]) ensures spec_uuid(r@) == Some(uuid), { unimplemented!() }
impl Snap {
    // every known UUID type has its definition item (type 0, id = raw type id) in the snapshot, no two UUIDs share a raw type id,
    // and there are at most as many of them as items
    spec fn ext_ok(&self) -> bool {
        &&& forall|u: Uuid| self.extended_types@.contains_key(u) ==> #[trigger] self.raw.offsets@.contains_key(mk_key(0, self.extended_types@[u]))
        &&& forall|a: Uuid, b: Uuid| self.extended_types@.contains_key(a) && self.extended_types@.contains_key(b) && a != b
                ==> self.extended_types@[a] != self.extended_types@[b]
        &&& self.extended_types@.len() <= self.raw.offsets@.len()
    }
}
impl Builder {
    // the next raw type id for a UUID type lies in 0x4000..0x8000 and stays there however many of the remaining item slots are
    // used for new types (this is what the two assert!s of add_item rest on)
    spec fn wf(&self) -> bool {
        &&& self.snap.raw.wf() && self.snap.ext_ok()
        &&& 0x4000 <= self.next_type_id
        &&& self.next_type_id + 1024 - self.snap.raw.offsets@.len() < 0x8000
        // raw type ids of UUID types never alias an ordinal type
        &&& forall|u: Uuid| self.snap.extended_types@.contains_key(u) ==> 0x4000 <= #[trigger] self.snap.extended_types@[u] < 0x8000
    }
}
// BTreeMap<Uuid, u16>::get by value (entry API stand-in: Occupied(o) => *o.get(), Vacant => None)
fn vx_ext_get(m: &BTreeMap<Uuid, u16>, u: Uuid) -> (r: Option<u16>)
    ensures r is Some <==> m@.contains_key(u), r is Some ==> r->Some_0 == m@[u],
{ match m.get(&u) { Some(x) => Some(*x), None => None } }
// `for (&uuid, &id) in &map`: the key/value pairs of a BTreeMap<Uuid, u16>, distinct keys
#[verifier::external_body]
fn vx_pairs_ext(m: &BTreeMap<Uuid, u16>) -> (r: Vec<(Uuid, u16)>)
    ensures
        r@.len() == m@.len(),
        forall|j: int| 0 <= j < r@.len() ==> m@.contains_key(#[trigger] r@[j].0) && m@[r@[j].0] == r@[j].1,
        forall|a: int, b: int| 0 <= a < b < r@.len() ==> r@[a].0 != r@[b].0,
        forall|u: Uuid| m@.contains_key(u) ==> exists|j: int| 0 <= j < r@.len() && #[trigger] r@[j].0 == u,
{ unimplemented!() }
// `map.range(first..=last).map(|(k, _)| k)`: the keys within [first, last], ascending
#[verifier::external_body]
fn vx_keys_in_range(m: &BTreeMap<i32, ops::Range<u32>>, first: i32, last: i32) -> (r: Vec<i32>)
    ensures
        forall|j: int| 0 <= j < r@.len() ==> m@.contains_key(#[trigger] r@[j]) && first <= r@[j] <= last,
        forall|a: int, b: int| 0 <= a < b < r@.len() ==> r@[a] < r@[b],
        forall|k: i32| m@.contains_key(k) && first <= k <= last ==> exists|j: int| 0 <= j < r@.len() && r@[j] == k,
{ unimplemented!() }
// `map.retain(|_, &mut id| 0x4000 <= id && id < 0x8000)`
#[verifier::external_body]
fn vx_retain_ext(m: &mut BTreeMap<Uuid, u16>)
    ensures
        forall|u: Uuid| (*final(m))@.contains_key(u) <==> ((*old(m))@.contains_key(u) && 0x4000 <= (*old(m))@[u] < 0x8000),
        forall|u: Uuid| (*final(m))@.contains_key(u) ==> (*final(m))@[u] == (*old(m))@[u],
        (*final(m))@.len() <= (*old(m))@.len(),
{ unimplemented!() }
proof fn lemma_key_small(id: u16)
    ensures mk_key(0, id) == id as i32, k_id(id as i32) == id, k_type(id as i32) == 0,
{
    let x = id as u32;
    assert(((0u32 << 16) | x) == x && (x & 0xffff) == x && ((x >> 16) & 0xffff) == 0) by (bit_vector) requires x <= 0xffff;
}
