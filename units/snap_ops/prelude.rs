use std::collections::BTreeMap;
use std::collections::BTreeSet;
mod ops { pub use core::ops::Range; }
mod libtw2_packer { pub struct IntOutOfRange; }

#[derive(Debug)]
pub struct UnexpectedEnd;

spec fn k_type(key: i32) -> u16 { (((key as u32) >> 16) & 0xffff) as u16 }
spec fn k_id(key: i32) -> u16 { ((key as u32) & 0xffff) as u16 }
spec fn mk_key(t: u16, id: u16) -> i32 { (((t as u32) << 16) | (id as u32)) as i32 }
spec fn wrap32(x: int) -> i32 {
    if x > 0x7fff_ffff { (x - 0x1_0000_0000) as i32 } else if x < -0x8000_0000 { (x + 0x1_0000_0000) as i32 } else { x as i32 }
}
spec fn wadd(a: i32, b: i32) -> i32 { wrap32(a + b) }
spec fn wsub(a: i32, b: i32) -> i32 { wrap32(a - b) }

// snapshot/src/lib.rs: fn to_usize(r: Range<u32>) -> Range<usize>
fn to_usize(r: ops::Range<u32>) -> (o: ops::Range<usize>) ensures o.start == r.start, o.end == r.end,
{ (r.start as usize)..(r.end as usize) }

// snapshot/src/read_int.rs `trait ReadInt` + ghost count of ints left
pub trait ReadInt {
    spec fn left(&self) -> nat;
    fn is_empty(&self) -> (r: bool) ensures r == (self.left() == 0);
    fn read_int<W: Warn<Warning>>(&mut self, warn: &mut W) -> (r: Result<i32, UnexpectedEnd>)
        ensures
            r is Ok ==> (*old(self)).left() >= 1 && (*final(self)).left() == (*old(self)).left() - 1,
            r is Err ==> (*final(self)).left() <= (*old(self)).left();
}
impl DeltaHeader {
    // format.rs: three ints: positive, positive, padding
    #[verifier::external_body]
    pub fn decode_impl<W: Warn<Warning>, R: ReadInt>(warn: &mut W, reader: &mut R) -> (r: Result<DeltaHeader, Error>)
        ensures
            (*final(reader)).left() <= (*old(reader)).left(),
            r is Ok ==> r->Ok_0.num_deleted_items >= 0 && r->Ok_0.num_updated_items >= 0,
    { unimplemented!() }
}
impl Delta {
    // every update range lies inside the delta's buffer
    spec fn wf(&self) -> bool {
        forall|k: i32| self.updated_items@.contains_key(k) ==>
            (#[trigger] self.updated_items@[k]).start <= self.updated_items@[k].end && self.updated_items@[k].end <= self.buf@.len()
    }
}
// ghost specs of the extracted From impls
impl vstd::std_specs::convert::FromSpecImpl<BuilderError> for Error {
    open spec fn obeys_from_spec() -> bool { true }
    open spec fn from_spec(e: BuilderError) -> Error {
        match e { BuilderError::DuplicateKey => Error::DuplicateKey, BuilderError::TooLongSnap => Error::TooLongSnap, BuilderError::TooManyItems => Error::TooManyItems }
    }
}
impl vstd::std_specs::convert::FromSpecImpl<DeltaDifferingSizes> for Error {
    open spec fn obeys_from_spec() -> bool { true }
    open spec fn from_spec(e: DeltaDifferingSizes) -> Error { Error::DeltaDifferingSizes }
}
