// ---------------- round trip ----------------
spec fn path_to(t: Huffman, idx: int, bits: Seq<bool>, s: int) -> bool decreases bits.len() {
    if bits.len() == 0 { idx == s }
    else { NUM_SYMBOLS <= idx < NUM_NODES && path_to(t, child(t.nodes[idx], bits[0]) as int, bits.drop_first(), s) }
}
spec fn codes_ok(t: Huffman) -> bool {
    forall|s: int| 0 <= s < NUM_SYMBOLS ==> path_to(t, ROOT_IDX as int, code_seq(sym_of(#[trigger] t.nodes[s])), s)
}
proof fn lemma_dec_path(t: Huffman, bytes: Seq<u8>, k: int, idx: int, code: Seq<bool>, s: int, out: Seq<u8>, cap: int)
    requires inner_ok(t), NUM_SYMBOLS <= idx < NUM_NODES, 0 <= s < NUM_SYMBOLS, path_to(t, idx, code, s), k >= 0,
        forall|i: int| 0 <= i < code.len() ==> in_bit(bytes, k + i) == #[trigger] code[i],
    ensures dec(t, bytes, k, idx, out, cap) == (if s == EOF { Ok::<Seq<u8>, ()>(out) } else if out.len() >= cap { Err::<Seq<u8>, ()>(()) }
            else { dec(t, bytes, k + code.len(), ROOT_IDX as int, out.push(s as u8), cap) }),
    decreases code.len()
{
    assert(code.len() > 0);
    let c = child(t.nodes[idx], code[0]) as int;
    assert(in_bit(bytes, k + 0) == code[0]);
    assert(path_to(t, c, code.drop_first(), s));
    if code.len() == 1 {
        assert(code.drop_first().len() == 0);
        assert(c == s);
    } else {
        assert(code.drop_first().len() > 0);
        assert(NUM_SYMBOLS <= c < NUM_NODES);
        assert forall|i: int| 0 <= i < code.drop_first().len() implies in_bit(bytes, k + 1 + i) == #[trigger] code.drop_first()[i] by {
            assert(code.drop_first()[i] == code[i + 1]);
        }
        lemma_dec_path(t, bytes, k + 1, c, code.drop_first(), s, out, cap);
    }
}
proof fn lemma_roundtrip_from(t: Huffman, data: Seq<u8>, bytes: Seq<u8>, n: int, cap: int)
    requires inner_ok(t), codes_ok(t), 0 <= n <= data.len(), n <= cap,
        out_bits(bytes).len() >= stream(t, data, data.len() as int + 1).len(),
        out_bits(bytes).take(stream(t, data, data.len() as int + 1).len() as int) == stream(t, data, data.len() as int + 1),
    ensures dec(t, bytes, stream(t, data, n).len() as int, ROOT_IDX as int, data.take(n), cap)
        == (if cap >= data.len() { Ok::<Seq<u8>, ()>(data) } else { Err::<Seq<u8>, ()>(()) }),
    decreases data.len() - n
{
    let total = stream(t, data, data.len() as int + 1);
    let s = sym_at(data, n);
    let code = code_seq(sym_of(t.nodes[s]));
    let k = stream(t, data, n).len() as int;
    lemma_stream_mono(t, data, n + 1, data.len() as int + 1);
    assert(stream(t, data, n + 1) == stream(t, data, n) + code);
    assert forall|i: int| 0 <= i < code.len() implies in_bit(bytes, k + i) == #[trigger] code[i] by {
        assert(total.take(stream(t, data, n + 1).len() as int)[k + i] == stream(t, data, n + 1)[k + i]);
        assert(out_bits(bytes).take(total.len() as int)[k + i] == total[k + i]);
        assert(out_bits(bytes)[k + i] == byte_bit(bytes[(k + i) / 8], (k + i) % 8));
    }
    assert(path_to(t, ROOT_IDX as int, code, s));
    lemma_dec_path(t, bytes, k, ROOT_IDX as int, code, s, data.take(n), cap);
    if n == data.len() {
        assert(data.take(n) =~= data);
    } else if n >= cap {
    } else {
        assert(data.take(n).push(s as u8) =~= data.take(n + 1));
        lemma_roundtrip_from(t, data, bytes, n + 1, cap);
    }
}
/// decompress(compress(data) ++ anything) == data for every table satisfying inner_ok and codes_ok, every capacity
proof fn lemma_roundtrip(t: Huffman, data: Seq<u8>, bytes: Seq<u8>, cap: int)
    requires inner_ok(t), codes_ok(t), cap >= 0,
        out_bits(bytes).len() >= stream(t, data, data.len() as int + 1).len(),
        out_bits(bytes).take(stream(t, data, data.len() as int + 1).len() as int) == stream(t, data, data.len() as int + 1),
    ensures dec(t, bytes, 0, ROOT_IDX as int, Seq::empty(), cap)
        == (if cap >= data.len() { Ok::<Seq<u8>, ()>(data) } else { Err::<Seq<u8>, ()>(()) }),
{
    lemma_roundtrip_from(t, data, bytes, 0, cap);
    assert(data.take(0) =~= Seq::<u8>::empty());
}
