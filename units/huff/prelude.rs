// ---- unit huff: specification vocabulary for libtw2-huffman (C07) ------------------------------------
// Table predicates (all over the real `Huffman.nodes` array):
//   inner_ok : every inner node's children have smaller indices (=> every walk from the root ends)
//   codes_wf : every symbol's stored code has <= 24 bits and no stray bits above num_bits
//   codes_ok : walking the tree from the root along a symbol's stored code (LSB first) passes through inner
//              nodes only and arrives exactly at that symbol
// For the built-in table (instances::TEEWORLDS) these three are proved by the complete Kani harnesses
// complete_huff_table_inner_node / complete_huff_table_symbol (every node, every symbol).
// stream  : the concatenation of the codes of the input symbols followed by the EOF code (the property's
//           "compressed form"), as a bit sequence
// dec     : the decoder as a mathematical function of (table, input bytes zero-extended, output capacity)
use vstd::std_specs::iter::IteratorSpec;
spec fn inner_ok(t: Huffman) -> bool {
    forall|i: int| NUM_SYMBOLS <= i < NUM_NODES ==> (#[trigger] t.nodes[i]).children[0] < i && t.nodes[i].children[1] < i
}
spec fn in_bit(input: Seq<u8>, k: int) -> bool
{ if 0 <= k / 8 < input.len() { byte_bit(input[k / 8], k % 8) } else { false } }
spec fn child(node: Node, b: bool) -> u16 { node.children[if b {1int} else {0int}] }
spec fn dec(t: Huffman, input: Seq<u8>, k: int, idx: int, out: Seq<u8>, cap: int) -> Result<Seq<u8>, ()>
  decreases cap - out.len(), idx
  when inner_ok(t) && NUM_SYMBOLS <= idx < NUM_NODES
{
    let c = child(t.nodes[idx], in_bit(input, k));
    if c >= NUM_SYMBOLS { dec(t, input, k+1, c as int, out, cap) }
    else if c == EOF { Ok(out) }
    else if out.len() >= cap { Err(()) }
    else { dec(t, input, k+1, ROOT_IDX as int, out.push(c as u8), cap) }
}
spec fn sym_of(n: Node) -> SymbolRepr {
    SymbolRepr { bits: ((n.children[0] & 0xff) as u32) << 16 | n.children[1] as u32, num_bits: (n.children[0] >> 8) as u8 }
}
spec fn codes_wf(t: Huffman) -> bool {
    forall|s: int| 0 <= s < NUM_SYMBOLS ==> (#[trigger] sym_of(t.nodes[s])).num_bits <= 24 && sym_of(t.nodes[s]).bits >> (sym_of(t.nodes[s]).num_bits as u32) == 0
}
spec fn code_seq(sym: SymbolRepr) -> Seq<bool> { Seq::new(sym.num_bits as nat, |i: int| (sym.bits >> (i as u32)) & 1 != 0) }
spec fn sym_at(input: Seq<u8>, i: int) -> int { if 0 <= i < input.len() { input[i] as int } else { EOF as int } }
spec fn stream(t: Huffman, input: Seq<u8>, n: int) -> Seq<bool> decreases n {
    if n <= 0 { Seq::empty() } else { stream(t, input, n - 1) + code_seq(sym_of(t.nodes[sym_at(input, n - 1)])) }
}
spec fn byte_bit(b: u8, i: int) -> bool { (b >> (i as u8)) & 1 != 0 }
spec fn out_bits(bytes: Seq<u8>) -> Seq<bool> { Seq::new((8 * bytes.len()) as nat, |k: int| byte_bit(bytes[k / 8], k % 8)) }
#[verifier::prophetic]
spec fn wr(rem0: Seq<&mut u8>, n: int) -> Seq<u8> { Seq::new(n as nat, |j: int| *final(rem0[j])) }
proof fn lemma_stream_mono(t: Huffman, input: Seq<u8>, a: int, b: int)
    requires 0 <= a <= b,
    ensures stream(t, input, a).len() <= stream(t, input, b).len(),
        stream(t, input, b).take(stream(t, input, a).len() as int) == stream(t, input, a),
    decreases b - a
{
    if a < b {
        lemma_stream_mono(t, input, a, b - 1);
        let x = stream(t, input, b - 1);
        let n = stream(t, input, a).len() as int;
        assert(stream(t, input, b).take(n) =~= x.take(n));
    } else {
        assert(stream(t, input, b).take(stream(t, input, a).len() as int) =~= stream(t, input, a));
    }
}
proof fn lemma_append_byte(w: Seq<u8>, v: u8, t: Seq<bool>)
    requires t.len() >= 8 * (w.len() + 1), out_bits(w) == t.take(8 * w.len() as int),
        forall|i: int| 0 <= i < 8 ==> byte_bit(v, i) == #[trigger] t[8 * w.len() + i],
    ensures out_bits(w.push(v)) == t.take(8 * (w.len() as int + 1)),
{
    let n = w.len() as int;
    assert forall|k: int| 0 <= k < 8 * (n + 1) implies out_bits(w.push(v))[k] == t[k] by {
        if k < 8 * n {
            assert(k / 8 < n);
            assert(out_bits(w)[k] == t.take(8 * n)[k]);
        } else {
            let i = k - 8 * n;
            assert(k / 8 == n && k % 8 == i);
            assert(byte_bit(v, i) == t[8 * w.len() + i]);
        }
    }
    assert(out_bits(w.push(v)) =~= t.take(8 * (n + 1)));
}
proof fn lemma_or_first(ob: u8, bits: u32, nob: u8, i: u8)
    requires nob < 8, i < 8, ob >> nob == 0,
    ensures ({ let o2 = ob | ((bits << nob) as u8);
        byte_bit(o2, i as int) == if i < nob { byte_bit(ob, i as int) } else { (bits >> ((i - nob) as u32)) & 1 != 0 } }),
{
    let o2 = ob | ((bits << nob) as u8);
    let d = if i >= nob { (i - nob) as u32 } else { 0u32 };
    assert(((o2 >> i) & 1 != 0) == if i < nob { (ob >> i) & 1 != 0 } else { (bits >> d) & 1 != 0 }) by (bit_vector)
        requires nob < 8, i < 8, ob >> nob == 0, o2 == ob | ((bits << nob) as u8), d == (if i >= nob { (i - nob) as u32 } else { 0u32 });
}
proof fn lemma_shift_byte(bits: u32, bw: u8, i: u8)
    requires bw <= 24, i < 8,
    ensures byte_bit((bits >> bw) as u8, i as int) == ((bits >> ((bw + i) as u32)) & 1 != 0),
{
    let o2 = (bits >> bw) as u8;
    let d = (bw + i) as u32;
    assert(((o2 >> i) & 1 != 0) == ((bits >> d) & 1 != 0)) by (bit_vector)
        requires bw <= 24, i < 8, o2 == (bits >> bw) as u8, d == (bw + i) as u32;
}
proof fn lemma_or_last(ob: u8, bits: u32, nob: u8, bw: u8, nb: u8, e: u8, i: u8)
    requires nob < 8, bw <= nb, nb <= 24, e == nob + nb - bw, e < 8, ob >> nob == 0, bits >> (nb as u32) == 0, i < 8,
    ensures ({ let o2 = ob | (((bits >> bw) << nob) as u8);
        &&& o2 >> e == 0
        &&& (i < nob ==> byte_bit(o2, i as int) == byte_bit(ob, i as int))
        &&& (nob <= i < e ==> byte_bit(o2, i as int) == ((bits >> ((bw + i - nob) as u32)) & 1 != 0)) }),
{
    let o2 = ob | (((bits >> bw) << nob) as u8);
    let d = if i >= nob { (bw + i - nob) as u32 } else { 0u32 };
    let nb32 = nb as u32;
    assert(o2 >> e == 0 && (i < nob ==> ((o2 >> i) & 1 != 0) == ((ob >> i) & 1 != 0))
        && (nob <= i && i < e ==> ((o2 >> i) & 1 != 0) == ((bits >> d) & 1 != 0))) by (bit_vector)
        requires nob < 8, bw <= nb, nb <= 24, e == nob + nb - bw, e < 8, ob >> nob == 0, bits >> nb32 == 0, i < 8, nb32 == nb as u32,
            o2 == ob | (((bits >> bw) << nob) as u8), d == (if i >= nob { (bw + i - nob) as u32 } else { 0u32 });
}
proof fn lemma_high_zero(ob: u8, nob: u8, i: u8)
    requires nob <= i < 8, ob >> nob == 0,
    ensures !byte_bit(ob, i as int),
{
    assert((ob >> i) & 1 == 0) by (bit_vector) requires nob <= i, i < 8, ob >> nob == 0;
}

spec fn bits_remaining(s: Bits) -> Seq<bool> { Seq::new(s.remaining_bits as nat, |i: int| (s.byte >> (i as u8)) & 1 != 0) }
impl vstd::std_specs::iter::IteratorSpecImpl for Bits {
    open spec fn obeys_prophetic_iter_laws(&self) -> bool { true }
    #[verifier::prophetic]
    closed spec fn remaining(&self) -> Seq<bool> { bits_remaining(*self) }
    #[verifier::prophetic]
    open spec fn will_return_none(&self) -> bool { true }
    closed spec fn decrease(&self) -> Option<nat> { Some(self.remaining_bits as nat) }
    open spec fn peek(&self, index: int) -> Option<bool> { None }
}


// trusted: a slice never has more than usize::MAX elements
#[verifier::external_body]
proof fn axiom_slice_len_bound(s: &[u8]) ensures s@.len() <= usize::MAX {}
