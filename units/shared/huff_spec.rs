// ---- shared prelude: the Huffman codec as seen by the packet layer -------------------------------------------------------------
// huff_c(x) names the bytes HUFFMAN.compress produces for x.  The two facts used about it are contracts of the two stubs below
// this line in the units that call the codec:  compress returns huff_c(input);  decompress on huff_c(x) with room for x yields x.
// Both are statements of unit `huff` (C07): compress_impl_unsafe's output is the spec stream of its input, and lemma_roundtrip:
// decoding any byte string that starts with a compressed stream yields the original bytes iff the capacity suffices.  The link
// between this uninterpreted name and unit `huff`'s spec functions is by reading (listed assumption).
pub uninterp spec fn huff_c(x: Seq<u8>) -> Seq<u8>;
