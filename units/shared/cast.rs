// ---- shared prelude: libtw2_common::num::Cast as a contract trait ---------------------------------
// The real trait (common/src/num/cast.rs) implements every method as `self.try_into().ok().unwrap()`
// (lossless widening) or `unwrap_overflow(..)` (assert_*: panic when the value does not fit).  Here:
// widening methods return the same mathematical value; assert_* methods additionally REQUIRE that the
// value fits, so the panic becomes a proof obligation at every call site; try_* return None iff it does not fit.
trait Cast: Sized {
    spec fn as_int(self) -> int;
    fn u16(self) -> (r: u16) requires 0 <= self.as_int() <= 0xffff, ensures r == self.as_int();
    fn i32(self) -> (r: i32) requires -0x8000_0000 <= self.as_int() <= 0x7fff_ffff, ensures r == self.as_int();
    fn u32(self) -> (r: u32) requires 0 <= self.as_int() <= 0xffff_ffff, ensures r == self.as_int();
    fn u64(self) -> (r: u64) requires 0 <= self.as_int() <= 0xffff_ffff_ffff_ffff, ensures r == self.as_int();
    fn usize(self) -> (r: usize) requires 0 <= self.as_int() <= 0xffff_ffff_ffff_ffff, ensures r == self.as_int();
    fn assert_u8(self) -> (r: u8) requires 0 <= self.as_int() <= 0xff, ensures r == self.as_int();
    fn assert_u16(self) -> (r: u16) requires 0 <= self.as_int() <= 0xffff, ensures r == self.as_int();
    fn assert_i32(self) -> (r: i32) requires -0x8000_0000 <= self.as_int() <= 0x7fff_ffff, ensures r == self.as_int();
    fn assert_u32(self) -> (r: u32) requires 0 <= self.as_int() <= 0xffff_ffff, ensures r == self.as_int();
    fn assert_usize(self) -> (r: usize) requires 0 <= self.as_int() <= 0xffff_ffff_ffff_ffff, ensures r == self.as_int();
    fn try_u16(self) -> (r: Option<u16>)
        ensures r is Some <==> 0 <= self.as_int() <= 0xffff, r is Some ==> r->Some_0 == self.as_int();
    fn try_i32(self) -> (r: Option<i32>)
        ensures r is Some <==> -0x8000_0000 <= self.as_int() <= 0x7fff_ffff, r is Some ==> r->Some_0 == self.as_int();
    fn try_u32(self) -> (r: Option<u32>)
        ensures r is Some <==> 0 <= self.as_int() <= 0xffff_ffff, r is Some ==> r->Some_0 == self.as_int();
    fn try_usize(self) -> (r: Option<usize>)
        ensures r is Some <==> 0 <= self.as_int() <= 0xffff_ffff_ffff_ffff, r is Some ==> r->Some_0 == self.as_int();
}
impl Cast for u8 {
    spec fn as_int(self) -> int { self as int }
    #[verifier::external_body] fn u16(self) -> (r: u16) { self as u16 }
    #[verifier::external_body] fn i32(self) -> (r: i32) { self as i32 }
    #[verifier::external_body] fn u32(self) -> (r: u32) { self as u32 }
    #[verifier::external_body] fn u64(self) -> (r: u64) { self as u64 }
    #[verifier::external_body] fn usize(self) -> (r: usize) { self as usize }
    #[verifier::external_body] fn assert_u8(self) -> (r: u8) { self as u8 }
    #[verifier::external_body] fn assert_u16(self) -> (r: u16) { self as u16 }
    #[verifier::external_body] fn assert_i32(self) -> (r: i32) { self as i32 }
    #[verifier::external_body] fn assert_u32(self) -> (r: u32) { self as u32 }
    #[verifier::external_body] fn assert_usize(self) -> (r: usize) { self as usize }
    #[verifier::external_body] fn try_u16(self) -> (r: Option<u16>) { unimplemented!() }
    #[verifier::external_body] fn try_i32(self) -> (r: Option<i32>) { unimplemented!() }
    #[verifier::external_body] fn try_u32(self) -> (r: Option<u32>) { unimplemented!() }
    #[verifier::external_body] fn try_usize(self) -> (r: Option<usize>) { unimplemented!() }
}
impl Cast for u16 {
    spec fn as_int(self) -> int { self as int }
    #[verifier::external_body] fn u16(self) -> (r: u16) { self as u16 }
    #[verifier::external_body] fn i32(self) -> (r: i32) { self as i32 }
    #[verifier::external_body] fn u32(self) -> (r: u32) { self as u32 }
    #[verifier::external_body] fn u64(self) -> (r: u64) { self as u64 }
    #[verifier::external_body] fn usize(self) -> (r: usize) { self as usize }
    #[verifier::external_body] fn assert_u8(self) -> (r: u8) { self as u8 }
    #[verifier::external_body] fn assert_u16(self) -> (r: u16) { self as u16 }
    #[verifier::external_body] fn assert_i32(self) -> (r: i32) { self as i32 }
    #[verifier::external_body] fn assert_u32(self) -> (r: u32) { self as u32 }
    #[verifier::external_body] fn assert_usize(self) -> (r: usize) { self as usize }
    #[verifier::external_body] fn try_u16(self) -> (r: Option<u16>) { unimplemented!() }
    #[verifier::external_body] fn try_i32(self) -> (r: Option<i32>) { unimplemented!() }
    #[verifier::external_body] fn try_u32(self) -> (r: Option<u32>) { unimplemented!() }
    #[verifier::external_body] fn try_usize(self) -> (r: Option<usize>) { unimplemented!() }
}
impl Cast for u32 {
    spec fn as_int(self) -> int { self as int }
    #[verifier::external_body] fn u16(self) -> (r: u16) { self as u16 }
    #[verifier::external_body] fn i32(self) -> (r: i32) { self as i32 }
    #[verifier::external_body] fn u32(self) -> (r: u32) { self as u32 }
    #[verifier::external_body] fn u64(self) -> (r: u64) { self as u64 }
    #[verifier::external_body] fn usize(self) -> (r: usize) { self as usize }
    #[verifier::external_body] fn assert_u8(self) -> (r: u8) { self as u8 }
    #[verifier::external_body] fn assert_u16(self) -> (r: u16) { self as u16 }
    #[verifier::external_body] fn assert_i32(self) -> (r: i32) { self as i32 }
    #[verifier::external_body] fn assert_u32(self) -> (r: u32) { self as u32 }
    #[verifier::external_body] fn assert_usize(self) -> (r: usize) { self as usize }
    #[verifier::external_body] fn try_u16(self) -> (r: Option<u16>) { unimplemented!() }
    #[verifier::external_body] fn try_i32(self) -> (r: Option<i32>) { unimplemented!() }
    #[verifier::external_body] fn try_u32(self) -> (r: Option<u32>) { unimplemented!() }
    #[verifier::external_body] fn try_usize(self) -> (r: Option<usize>) { unimplemented!() }
}
impl Cast for u64 {
    spec fn as_int(self) -> int { self as int }
    #[verifier::external_body] fn u16(self) -> (r: u16) { self as u16 }
    #[verifier::external_body] fn i32(self) -> (r: i32) { self as i32 }
    #[verifier::external_body] fn u32(self) -> (r: u32) { self as u32 }
    #[verifier::external_body] fn u64(self) -> (r: u64) { self as u64 }
    #[verifier::external_body] fn usize(self) -> (r: usize) { self as usize }
    #[verifier::external_body] fn assert_u8(self) -> (r: u8) { self as u8 }
    #[verifier::external_body] fn assert_u16(self) -> (r: u16) { self as u16 }
    #[verifier::external_body] fn assert_i32(self) -> (r: i32) { self as i32 }
    #[verifier::external_body] fn assert_u32(self) -> (r: u32) { self as u32 }
    #[verifier::external_body] fn assert_usize(self) -> (r: usize) { self as usize }
    #[verifier::external_body] fn try_u16(self) -> (r: Option<u16>) { unimplemented!() }
    #[verifier::external_body] fn try_i32(self) -> (r: Option<i32>) { unimplemented!() }
    #[verifier::external_body] fn try_u32(self) -> (r: Option<u32>) { unimplemented!() }
    #[verifier::external_body] fn try_usize(self) -> (r: Option<usize>) { unimplemented!() }
}
impl Cast for i32 {
    spec fn as_int(self) -> int { self as int }
    #[verifier::external_body] fn u16(self) -> (r: u16) { self as u16 }
    #[verifier::external_body] fn i32(self) -> (r: i32) { self as i32 }
    #[verifier::external_body] fn u32(self) -> (r: u32) { self as u32 }
    #[verifier::external_body] fn u64(self) -> (r: u64) { self as u64 }
    #[verifier::external_body] fn usize(self) -> (r: usize) { self as usize }
    #[verifier::external_body] fn assert_u8(self) -> (r: u8) { self as u8 }
    #[verifier::external_body] fn assert_u16(self) -> (r: u16) { self as u16 }
    #[verifier::external_body] fn assert_i32(self) -> (r: i32) { self as i32 }
    #[verifier::external_body] fn assert_u32(self) -> (r: u32) { self as u32 }
    #[verifier::external_body] fn assert_usize(self) -> (r: usize) { self as usize }
    #[verifier::external_body] fn try_u16(self) -> (r: Option<u16>) { unimplemented!() }
    #[verifier::external_body] fn try_i32(self) -> (r: Option<i32>) { unimplemented!() }
    #[verifier::external_body] fn try_u32(self) -> (r: Option<u32>) { unimplemented!() }
    #[verifier::external_body] fn try_usize(self) -> (r: Option<usize>) { unimplemented!() }
}
impl Cast for usize {
    spec fn as_int(self) -> int { self as int }
    #[verifier::external_body] fn u16(self) -> (r: u16) { self as u16 }
    #[verifier::external_body] fn i32(self) -> (r: i32) { self as i32 }
    #[verifier::external_body] fn u32(self) -> (r: u32) { self as u32 }
    #[verifier::external_body] fn u64(self) -> (r: u64) { self as u64 }
    #[verifier::external_body] fn usize(self) -> (r: usize) { self as usize }
    #[verifier::external_body] fn assert_u8(self) -> (r: u8) { self as u8 }
    #[verifier::external_body] fn assert_u16(self) -> (r: u16) { self as u16 }
    #[verifier::external_body] fn assert_i32(self) -> (r: i32) { self as i32 }
    #[verifier::external_body] fn assert_u32(self) -> (r: u32) { self as u32 }
    #[verifier::external_body] fn assert_usize(self) -> (r: usize) { self as usize }
    #[verifier::external_body] fn try_u16(self) -> (r: Option<u16>) { unimplemented!() }
    #[verifier::external_body] fn try_i32(self) -> (r: Option<i32>) { unimplemented!() }
    #[verifier::external_body] fn try_u32(self) -> (r: Option<u32>) { unimplemented!() }
    #[verifier::external_body] fn try_usize(self) -> (r: Option<usize>) { unimplemented!() }
}
