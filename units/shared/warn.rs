// ---- shared prelude: libtw2_warn::Warn with a ghost warning counter -------------
// The real trait (warn/src/lib.rs) has the single method `warn`; `count` is ghost.
pub trait Warn<W> {
    spec fn count(&self) -> nat;
    fn warn(&mut self, warning: W)
        ensures (*final(self)).count() == (*old(self)).count() + 1;
}
// stand-in for libtw2_warn::Ignore (the real impl discards the warning)
pub struct Ignore;
impl<W> Warn<W> for Ignore {
    closed spec fn count(&self) -> nat { 0 }
    #[verifier::external_body]
    fn warn(&mut self, warning: W) { }
}
