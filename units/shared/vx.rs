// ---- shared prelude: `vx` helpers ------------------------------------------------
// Loop implementations (verified here against their specs) that stand in for
// iterator-adapter expressions this Verus cannot take:
//   X.iter().all(|&b| b == v)         -> vx_all_eq(X, v)
//   X.iter().all(|&b| b != v)         -> vx_all_ne(X, v)
//   X.iter().position(|&b| b == v)    -> vx_position_eq(X, v)
// Assumption recorded in the evidence: the adapter expression computes the same
// value as the helper (semantics of core::iter::Iterator::{all,position}).
pub fn vx_all_eq(s: &[u8], v: u8) -> (r: bool)
    ensures r == (forall|i: int| 0 <= i < s@.len() ==> s@[i] == v),
{
    let mut i: usize = 0;
    while i < s.len()
        invariant i <= s@.len(), forall|j: int| 0 <= j < i ==> s@[j] == v,
        decreases s@.len() - i,
    {
        if s[i] != v { return false; }
        i += 1;
    }
    true
}
pub fn vx_all_ne(s: &[u8], v: u8) -> (r: bool)
    ensures r == (forall|i: int| 0 <= i < s@.len() ==> s@[i] != v),
{
    let mut i: usize = 0;
    while i < s.len()
        invariant i <= s@.len(), forall|j: int| 0 <= j < i ==> s@[j] != v,
        decreases s@.len() - i,
    {
        if s[i] == v { return false; }
        i += 1;
    }
    true
}
pub fn vx_position_eq(s: &[u8], v: u8) -> (r: Option<usize>)
    ensures
        r.is_some() ==> r.unwrap() < s@.len() && s@[r.unwrap() as int] == v
            && (forall|j: int| 0 <= j < r.unwrap() ==> s@[j] != v),
        r.is_none() ==> (forall|j: int| 0 <= j < s@.len() ==> s@[j] != v),
{
    let mut i: usize = 0;
    while i < s.len()
        invariant i <= s@.len(), forall|j: int| 0 <= j < i ==> s@[j] != v,
        decreases s@.len() - i,
    {
        if s[i] == v { return Some(i); }
        i += 1;
    }
    None
}
