// ---- shared prelude: by-value iterator over the bytes of a slice ----
use vstd::std_specs::iter::IteratorSpec;
// stand-in for `bytes.iter().cloned()` (core::iter::Cloned has no vstd specification): a by-value iterator over the same
// element sequence; its `next` is verified here against vstd's iterator laws
pub struct VxCloned<'a> { it: core::slice::Iter<'a, u8> }
#[verifier::prophetic]
spec fn vxc_rem(s: VxCloned) -> Seq<u8> { Seq::new(IteratorSpec::remaining(&s.it).len(), |i: int| *IteratorSpec::remaining(&s.it)[i]) }
impl<'a> Iterator for VxCloned<'a> {
    type Item = u8;
    fn next(&mut self) -> Option<u8> {
        match self.it.next() { Some(b) => { proof { assert(vxc_rem(*self) =~= vxc_rem(*old(self)).drop_first()); } Some(*b) } None => None }
    }
}
impl<'a> vstd::std_specs::iter::IteratorSpecImpl for VxCloned<'a> {
    open spec fn obeys_prophetic_iter_laws(&self) -> bool { true }
    #[verifier::prophetic]
    closed spec fn remaining(&self) -> Seq<u8> { vxc_rem(*self) }
    #[verifier::prophetic]
    open spec fn will_return_none(&self) -> bool { true }
    closed spec fn decrease(&self) -> Option<nat> { IteratorSpec::decrease(&self.it) }
    open spec fn peek(&self, index: int) -> Option<u8> { None }
}
fn vx_cloned<'a>(bytes: &'a [u8]) -> (r: VxCloned<'a>)
    ensures r.remaining() =~= bytes@,
{ VxCloned { it: bytes.iter() } }
