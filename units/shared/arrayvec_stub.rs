// ---- shared prelude: arrayvec::ArrayVec<[u8; 2048]> as an abstract byte vector ----
// Only the instantiation [u8; 2048] occurs in the code under contract.
#[verifier::external_body]
#[verifier::reject_recursive_types(A)]
pub struct ArrayVec<A> { _p: core::marker::PhantomData<A> }
impl<A> ArrayVec<A> {
    pub uninterp spec fn view(&self) -> Seq<u8>;
    pub open spec fn wf(&self) -> bool { self.view().len() <= 2048 }
    #[verifier::external_body]
    pub fn new() -> (r: ArrayVec<A>) ensures r.view().len() == 0, { unimplemented!() }
    #[verifier::external_body]
    pub fn len(&self) -> (r: usize) requires self.wf(), ensures r == self.view().len(), { unimplemented!() }
    // Deref<Target=[u8]>: `&v` used as `&[u8]`
    #[verifier::external_body]
    pub fn as_slice(&self) -> (r: &[u8]) ensures r@ == self.view(), { unimplemented!() }
    // <ArrayVec<[u8; N]> as std::io::Write>::write: copies min(len, remaining) bytes, never fails
    #[verifier::external_body]
    pub fn write(&mut self, bytes: &[u8]) -> (r: Result<usize, IoError>)
        requires (*old(self)).wf(),
        ensures
            (*final(self)).wf(),
            r.is_ok(),
            r.unwrap() == if bytes@.len() <= 2048 - (*old(self)).view().len() { bytes@.len() as int } else { 2048 - (*old(self)).view().len() },
            (*final(self)).view() == (*old(self)).view() + bytes@.subrange(0, r.unwrap() as int),
    { unimplemented!() }
}
impl<A> Clone for ArrayVec<A> {
    #[verifier::external_body]
    fn clone(&self) -> (r: Self) ensures r == *self, { unimplemented!() }
}
#[derive(Debug)]
pub struct IoError;
