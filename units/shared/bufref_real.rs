// ---- shared prelude: view of the REAL libtw2_buffer::BufferRef struct (extracted in the including unit) ----
// view of the real struct: cap() = length of the underlying buffer, init() = its initialized prefix
impl<'d, 's> BufferRef<'d, 's> {
    spec fn cap(&self) -> nat { self.buffer@.len() }
    spec fn init(&self) -> Seq<u8> { self.buffer@.subrange(0, *self.initialized_ as int) }
    spec fn wf(&self) -> bool { *self.initialized_ <= self.buffer@.len() }
}
