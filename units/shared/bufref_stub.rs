// ---- shared prelude: libtw2_buffer::BufferRef as an abstract type ----------------
// view: cap() = capacity of the underlying byte buffer, init() = the bytes
// initialized so far (a prefix of the buffer).  The contracts below are the
// shared texts of units/contracts.toml; they are proved on the real code in
// unit `bufref` (the text of `write` is the shared contract bufref::write of units/contracts.toml).
#[verifier::external_body]
pub struct BufferRef<'d, 's> {
    _p: core::marker::PhantomData<(&'d mut [u8], &'s mut usize)>,
}
#[derive(Debug)]
pub struct CapacityError;
impl<'d, 's> BufferRef<'d, 's> {
    pub uninterp spec fn cap(&self) -> nat;
    pub uninterp spec fn init(&self) -> Seq<u8>;
    pub open spec fn wf(&self) -> bool { self.init().len() <= self.cap() }

    #[verifier::external_body]
    pub fn write(&mut self, bytes: &[u8]) -> (r: Result<(), CapacityError>)
        //@contract bufref::write
    { unimplemented!() }

    #[verifier::external_body]
    pub fn remaining(&self) -> (r: usize)
        requires self.wf(),
        ensures r == self.cap() - self.init().len(),
    { unimplemented!() }

    #[verifier::external_body]
    pub fn initialized(self) -> (r: &'d [u8])
        requires self.wf(),
        ensures r@ == self.init(),
    { unimplemented!() }
}
