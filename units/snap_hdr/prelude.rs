// ---- unit snap_hdr: the two header decoders of the snapshot wire format (C11), which the units snap_raw and snap_ops use by contract --
mod libtw2_packer { pub(crate) use super::{positive, IntOutOfRange}; }
#[derive(Debug)]
pub struct UnexpectedEnd;
pub enum Warning { NonZeroPadding, Other }
// libtw2_packer::IntUnpacker: contract as proved in unit packer (read_int pops the first int or fails on an empty rest)
#[verifier::external_body]
pub struct IntUnpacker<'a> { _p: core::marker::PhantomData<&'a [i32]> }
impl<'a> IntUnpacker<'a> {
    pub uninterp spec fn rest(&self) -> Seq<i32>;
    #[verifier::external_body]
    pub fn read_int(&mut self) -> (r: Result<i32, UnexpectedEnd>)
        ensures
            r is Ok <==> (*old(self)).rest().len() > 0,
            r is Ok ==> r->Ok_0 == (*old(self)).rest()[0] && (*final(self)).rest() == (*old(self)).rest().skip(1),
            r is Err ==> (*final(self)).rest().len() == 0,
    { unimplemented!() }
}
// snapshot/src/read_int.rs `trait ReadInt` + ghost count of ints left (same text as in unit snap_ops)
pub trait ReadInt {
    spec fn left(&self) -> nat;
    fn is_empty(&self) -> (r: bool) ensures r == (self.left() == 0);
    fn read_int<W: Warn<Warning>>(&mut self, warn: &mut W) -> (r: Result<i32, UnexpectedEnd>)
        ensures
            r is Ok ==> (*old(self)).left() >= 1 && (*final(self)).left() == (*old(self)).left() - 1,
            r is Err ==> (*final(self)).left() <= (*old(self)).left();
}
impl vstd::std_specs::convert::FromSpecImpl<IntOutOfRange> for Error {
    open spec fn obeys_from_spec() -> bool { true }
    open spec fn from_spec(e: IntOutOfRange) -> Error { Error::IntOutOfRange }
}
impl vstd::std_specs::convert::FromSpecImpl<UnexpectedEnd> for Error {
    open spec fn obeys_from_spec() -> bool { true }
    open spec fn from_spec(e: UnexpectedEnd) -> Error { Error::UnexpectedEnd }
}
