mod mem { pub use core::mem::swap; }
// arrayvec::ArrayString<[u8; N]>: opaque
#[verifier::external_body]
#[verifier::reject_recursive_types(A)]
pub struct ArrayString<A> { _p: core::marker::PhantomData<A> }
#[verifier::external_body]
fn vx_extend_clients(v: &mut Vec<ClientInfo>, other: Vec<ClientInfo>) ensures (*final(v))@ == (*old(v))@ + other@, { unimplemented!() }
#[verifier::external_body]
fn vx_sort(v: &mut Vec<ClientInfo>) ensures (*final(v))@.len() == (*old(v))@.len(), { unimplemented!() }

spec fn multipart(v: ServerInfoVersion) -> bool { v is V664 || v is V6Ex }
spec fn mergeable(a: PartialServerInfo, b: PartialServerInfo) -> bool {
    a.info.token == b.info.token && a.info.info_version == b.info.info_version
}
spec fn new_part(a: PartialServerInfo, b: PartialServerInfo) -> bool {
    mergeable(a, b) && multipart(a.info.info_version) && a.received & b.received == 0 && b.received != 0
}
