// C09 at item level: applying the created delta to `from` gives back `to`, for every word
proof fn lemma_item_delta_inverse(f: i32, t: i32)
    ensures wadd(f, wsub(t, f)) == t,
{
}
// ... and creating the delta after applying one gives back the delta
proof fn lemma_item_delta_inverse2(f: i32, d: i32)
    ensures wsub(wadd(f, d), f) == d,
{
}
// sequence level: the contracts of create_item_delta followed by apply_item_delta yield `to`
proof fn lemma_item_delta_roundtrip(from: Seq<i32>, to: Seq<i32>, delta: Seq<i32>, out: Seq<i32>)
    requires
        from.len() == to.len(), delta.len() == to.len(), out.len() == to.len(),
        forall|j: int| 0 <= j < to.len() ==> delta[j] == wsub(to[j], from[j]),
        forall|j: int| 0 <= j < to.len() ==> out[j] == wadd(from[j], delta[j]),
    ensures out =~= to,
{
    assert forall|j: int| 0 <= j < to.len() implies out[j] == to[j] by { lemma_item_delta_inverse(from[j], to[j]); }
}
