// two's-complement wrapping sum / difference on i32 as mathematical functions
spec fn wrap32(x: int) -> i32 {
    if x > 0x7fff_ffff { (x - 0x1_0000_0000) as i32 } else if x < -0x8000_0000 { (x + 0x1_0000_0000) as i32 } else { x as i32 }
}
spec fn wadd(a: i32, b: i32) -> i32 { wrap32(a + b) }
spec fn wsub(a: i32, b: i32) -> i32 { wrap32(a - b) }
