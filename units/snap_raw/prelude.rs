use std::collections::BTreeMap;
mod ops { pub use core::ops::Range; }
mod btree_map { pub use super::VacantEntry; }
fn vx_size_of_i32() -> (r: usize) ensures r == 4, { 4 }
#[verifier::external_body]
fn vx_extend_zeros(buf: &mut Vec<i32>, n: usize)
    ensures (*final(buf))@ == (*old(buf))@ + Seq::new(n as nat, |i: int| 0i32),
{ unimplemented!() }
// std::collections::btree_map::VacantEntry<'a, i32, Range<u32>>
#[verifier::external_body]
#[verifier::reject_recursive_types(K)]
#[verifier::reject_recursive_types(V)]
pub struct VacantEntry<'a, K, V> { _p: core::marker::PhantomData<&'a mut (K, V)> }
impl<'a, K, V> VacantEntry<'a, K, V> {
    // prophecy-style ghost: the value this entry ends up holding (None if it is dropped without insert)
    pub uninterp spec fn inserted_value(&self) -> Option<V>;
    #[verifier::external_body]
    pub fn insert(self, value: V) -> (r: &'a mut V)
        ensures *r == value, self.inserted_value() == Some(value),
    { unimplemented!() }
}

// ghost: specification of `impl From<BuilderError> for Error` (the exec impl is extracted and checked against it)
impl vstd::std_specs::convert::FromSpecImpl<BuilderError> for Error {
    open spec fn obeys_from_spec() -> bool { true }
    open spec fn from_spec(e: BuilderError) -> Error {
        match e { BuilderError::DuplicateKey => Error::DuplicateKey, BuilderError::TooLongSnap => Error::TooLongSnap, BuilderError::TooManyItems => Error::TooManyItems }
    }
}
