use std::collections::BTreeMap;
mod ops { pub use core::ops::Range; }
mod btree_map { pub use super::VacantEntry; }
fn vx_size_of_i32() -> (r: usize) ensures r == 4, { 4 }
#[verifier::external_body]
fn vx_extend_zeros(buf: &mut Vec<i32>, n: usize)
    ensures (*final(buf))@ == (*old(buf))@ + Seq::new(n as nat, |i: int| 0i32),
{ unimplemented!() }
// std::collections::btree_map::VacantEntry<'a, i32, Range<u32>>
#[verifier::external_body]
#[verifier::reject_recursive_types(K)]
#[verifier::reject_recursive_types(V)]
pub struct VacantEntry<'a, K, V> { _p: core::marker::PhantomData<&'a mut (K, V)> }
impl<'a, K, V> VacantEntry<'a, K, V> {
    // prophecy-style ghost: the value this entry ends up holding (None if it is dropped without insert)
    pub uninterp spec fn inserted_value(&self) -> Option<V>;
    #[verifier::external_body]
    pub fn insert(self, value: V) -> (r: &'a mut V)
        ensures *r == value, self.inserted_value() == Some(value),
    { unimplemented!() }
}

// ghost: specification of `impl From<BuilderError> for Error` (the exec impl is extracted and checked against it)
impl vstd::std_specs::convert::FromSpecImpl<BuilderError> for Error {
    open spec fn obeys_from_spec() -> bool { true }
    open spec fn from_spec(e: BuilderError) -> Error {
        match e { BuilderError::DuplicateKey => Error::DuplicateKey, BuilderError::TooLongSnap => Error::TooLongSnap, BuilderError::TooManyItems => Error::TooManyItems }
    }
}
use vstd::std_specs::iter::IteratorSpec;
mod cmp { pub use core::cmp::Ordering; }
fn vx_cmp_usize(a: usize, b: usize) -> (r: core::cmp::Ordering)
    ensures r == (if a < b { core::cmp::Ordering::Less } else if a == b { core::cmp::Ordering::Equal } else { core::cmp::Ordering::Greater }),
{ if a < b { core::cmp::Ordering::Less } else if a == b { core::cmp::Ordering::Equal } else { core::cmp::Ordering::Greater } }
// slice::Iter<i32>::next().copied()
fn vx_next_copied(it: &mut core::slice::Iter<i32>) -> (r: Option<i32>)
    ensures
        (*old(it)).remaining().len() == 0 ==> r is None && (*final(it)).remaining().len() == 0,
        (*old(it)).remaining().len() > 0 ==> r == Some(*(*old(it)).remaining()[0])
            && (*final(it)).remaining() == (*old(it)).remaining().skip(1),
{
    match it.next() { Some(x) => Some(*x), None => None }
}
impl RawSnap {
    // limits as a representation invariant of every RawSnap reachable through add_item / prepare_item
    spec fn wf(&self) -> bool {
        self.offsets@.len() <= 1024 && 4 * (2 + 2 * self.offsets@.len() + self.buf@.len()) <= 65536
    }
}
// libtw2_packer::IntUnpacker by contract
#[verifier::external_body]
pub struct IntUnpacker<'a> { _p: core::marker::PhantomData<&'a [i32]> }
impl<'a> IntUnpacker<'a> {
    pub uninterp spec fn rest(&self) -> Seq<i32>;
    #[verifier::external_body]
    pub fn new(slice: &'a [i32]) -> (r: IntUnpacker<'a>) ensures r.rest() == slice@, { unimplemented!() }
    #[verifier::external_body]
    pub fn as_slice(&self) -> (r: &'a [i32]) ensures r@ == self.rest(), { unimplemented!() }
}
impl SnapHeader {
    // format.rs: two `positive(p.read_int()?)?` fields -- shared contract, proved in unit snap_hdr
    #[verifier::external_body]
    pub fn decode_obj(p: &mut IntUnpacker) -> (r: Result<SnapHeader, Error>)
        //@contract snapshot::SnapHeader::decode_obj
    { unimplemented!() }
}
