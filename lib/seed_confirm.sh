#!/bin/bash
# seed_confirm.sh <outdir e.g. /tmp/wt-out/C05/m1> <name e.g. C05-m1>
# Confirms a candidate seeded change in a scratch worktree of /repo HEAD and, if confirmed, stores it under /verif/seeded/<name>/.
set -u
OUT=$1; NAME=$2
WT=/tmp/seedwt/$NAME
rm -rf $WT; git -C /repo worktree prune; git -C /repo worktree add -q --detach $WT HEAD || exit 2
cd $WT
DEMO=$(python3 -c "import json;print(json.load(open('$OUT/meta.json'))['demo_cmd'])" | sed "s#/tmp/wt[0-9]*/[A-Z0-9]*#$WT#g")
CRATES=$(git apply --numstat $OUT/patch.diff | awk '{print $3}' | cut -d/ -f1 | sort -u | sed 's/^/libtw2-/' | tr '\n' ' ')
CRATES=${CRATES_OVERRIDE:-$CRATES}
echo "demo: $DEMO"; echo "crates: $CRATES"
git apply $OUT/demo.diff || { echo "demo.diff does not apply"; exit 2; }
( eval "$DEMO" ) > $WT/demo_clean.log 2>&1; R1=$?
git apply $OUT/patch.diff || { echo "patch.diff does not apply"; exit 2; }
( eval "$DEMO" ) > $WT/demo_mut.log 2>&1; R2=$?
git apply -R $OUT/demo.diff
PK=""; for c in $CRATES; do PK="$PK -p $c"; done
cargo test --offline $PK > $WT/tests_mut.log 2>&1; R3=$?
echo "demo on clean: rc=$R1 ; demo with patch: rc=$R2 ; existing tests of $CRATES with patch: rc=$R3"
if [ $R1 -eq 0 ] && [ $R2 -ne 0 ] && [ $R3 -eq 0 ]; then
  mkdir -p /verif/seeded/$NAME
  cp $OUT/patch.diff $OUT/demo.diff /verif/seeded/$NAME/
  python3 - <<PY
import json
m=json.load(open('$OUT/meta.json'))
m['confirmed']={'worktree':'scratch worktree of /repo HEAD (removed afterwards)','demo_on_clean_rc':$R1,'demo_with_patch_rc':$R2,'existing_tests_with_patch_rc':$R3,'existing_tests_cmd':'cargo test --offline $PK','demo_cmd':"""$DEMO"""}
json.dump(m,open('/verif/seeded/$NAME/meta.json','w'),indent=1)
PY
  echo CONFIRMED $NAME
else
  echo NOT-CONFIRMED $NAME; tail -5 $WT/demo_clean.log; tail -5 $WT/demo_mut.log; tail -5 $WT/tests_mut.log
fi
cd /; git -C /repo worktree remove --force $WT
