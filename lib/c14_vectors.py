#!/usr/bin/env python3
"""Test vectors for the generated message / snapshot-object codecs (property C14), derived from the protocol
descriptions in /repo/gamenet/generate/spec/*.json -- NOT from the generator (gamenet/generate/datatypes.py) and not
from the generated Rust.  The wire rules used here are the ones doc/ and the descriptions state: every integer-like
member is one variable-length integer (doc/int.md), strings are NUL-terminated, `data` is a length-prefixed byte
string, uuid/sha256 are 16/32 raw bytes, arrays are their members in sequence, an embedded snapshot object is its
members in sequence, optional members are present when encoded.  Snapshot objects are plain integer sequences.

usage: c14_vectors.py <out dir>
writes <out dir>/<crate>.vec, one vector per line:
    game|system <id> ok|err <hex payload>        id: decimal ordinal or uuid (32 hex digits)
    connless <id> ok|err <hex payload>           id: the eight id bytes (16 hex digits)
    obj <id> ok|err <int,int,...> [<indices of boolean members>]
ok  = canonical encoding of a value inside every declared constraint: must decode without warning and re-encode to
      the same bytes / ints
err = one declared constraint violated (range limit, enum value, boolean, forbidden control character) or truncated:
      must be rejected
"""
import json
import os
import sys

SPEC_DIR = '/repo/gamenet/generate/spec'
CRATES = {
    'teeworlds-0.5.json': 'libtw2-gamenet-teeworlds-0-5',
    'teeworlds-0.6.json': 'libtw2-gamenet-teeworlds-0-6',
    'teeworlds-0.7-trunk.json': 'libtw2-gamenet-teeworlds-0-7',
    'ddnet-19.6.json': 'libtw2-gamenet-ddnet',
}
I32_MIN, I32_MAX = -2**31, 2**31 - 1


def varint(v):
    """doc/int.md: ESDD_DDDD [EDDD_DDDD]*, sign-folded"""
    assert I32_MIN <= v <= I32_MAX
    sign = 1 if v < 0 else 0
    u = (~v if v < 0 else v) & 0xffffffff
    out = []
    first = u & 0x3f
    u >>= 6
    out.append((0x80 if u else 0) | (0x40 if sign else 0) | first)
    while u:
        nxt = u & 0x7f
        u >>= 7
        out.append((0x80 if u else 0) | nxt)
    return bytes(out)


class Unsupported(Exception):
    pass


class Spec:
    def __init__(self, d):
        self.d = d
        self.enums = {tuple(e['name']): [v['value'] for v in e['values']] for e in d.get('game_enumerations', [])}
        self.objs = {tuple(o['name']): o for o in d.get('snapshot_objects', [])}

    # every member type yields: list of "good" encodings (each a list of atoms) and list of "bad" ones.
    # atoms: ('i', int) one integer; ('b', bytes) raw bytes.  ints_only=True for snapshot objects.
    def variants(self, t, ints_only):
        k = t['kind']
        if k in ('int32', 'tick', 'tune_param', 'flags'):
            lo = t.get('min', I32_MIN) if k == 'int32' else I32_MIN
            hi = t.get('max', I32_MAX) if k == 'int32' else I32_MAX
            good = sorted({lo, hi, max(lo, min(hi, 0)), max(lo, min(hi, 1)), max(lo, min(hi, 64)), max(lo, min(hi, -65))})
            bad = []
            if lo > I32_MIN:
                bad.append(lo - 1)
                bad.append(I32_MIN)
            if hi < I32_MAX:
                bad.append(hi + 1)
                bad.append(I32_MAX)
            return [[('i', v)] for v in good], [[('i', v)] for v in bad]
        if k == 'enum':
            vals = self.enums[tuple(t['enum'])]
            bad = [min(vals) - 1, max(vals) + 1, I32_MAX, I32_MIN]
            bad += [v for v in range(min(vals), max(vals)) if v not in vals][:2]
            return [[('i', v)] for v in vals], [[('i', v)] for v in bad]
        if k == 'boolean':
            t_ = 'B' if ints_only else 'i'
            return [[(t_, 0)], [(t_, 1)]], [[(t_, 2)], [(t_, -1)], [(t_, I32_MAX)]]
        if k == 'int32_twstring':
            n = t['count']
            return [[('i', 0)] * n, [('i', -1)] * n], []
        if k == 'array':
            g, b = self.variants(t['member_type'], ints_only)
            n = t['count']
            good = [sum([g[(i + j) % len(g)] for j in range(n)], []) for i in range(min(3, len(g)))]
            # one violated member at every position of the array
            bad = [sum([g[0]] * pos, []) + x + sum([g[0]] * (n - 1 - pos), []) for pos in range(n) for x in b[:2]]
            return good, bad
        if ints_only:
            raise Unsupported(k)
        if k == 'string':
            good = [b'', b'abc', b'x' * 120, bytes(range(0x20, 0x7f)), b'\xc3\xa4\xe2\x82\xac']
            bad = []
            if t.get('disallow_cc'):
                bad = [b'a\x01b', b'\x1f', b'tab\there', b'line\nbreak']
            else:
                good.append(b'cc\x01\x1f allowed')
            return [[('b', s + b'\0')] for s in good], [[('b', s + b'\0')] for s in bad]
        if k == 'data':
            good = [b'', b'\x00', bytes(range(70)), b'\xff' * 300]
            return [[('i', len(s)), ('b', s)] for s in good], [[('i', -1)]]
        if k == 'rest':
            return [[('b', b'')], [('b', b'rest of the message \x00\x01')]], []
        if k == 'uuid':
            return [[('b', bytes(range(16)))], [('b', b'\xff' * 16)]], []
        if k == 'sha256':
            return [[('b', bytes(range(32)))]], []
        # connectionless messages (gamenet/*/src/msg/connless.rs): raw big-endian / raw byte members, integers written as
        # NUL-terminated decimal strings, opaque tails
        if k == 'be_uint16':
            return [[('b', b'\x00\x00')], [('b', b'\xff\xff')], [('b', b'\x12\x34')]], []
        if k == 'uint8':
            return [[('b', b'\x00')], [('b', b'\xff')], [('b', b'\x7f')]], []
        if k == 'int32_string':
            good = [0, 1, -1, I32_MAX, I32_MIN, -1000000000, 1000000000, -999999999, 42, -2147483647]
            bad = [b'abc', b'', b'2147483648', b'-2147483649', b'1x', b'-', b' 1']
            return [[('b', str(v).encode() + b'\0')] for v in good], [[('b', x + b'\0')] for x in bad]
        if k == 'packed_addresses':
            return [[('b', b'')], [('b', bytes(range(18)))], [('b', bytes(range(36)))]], []
        if k == 'serverinfo_client':
            return [[('b', b'')], [('b', b'name\0clan\0-1\x0012\x001\0')], [('b', b'\x00\x01\xff tail')]], []
        if k == 'optional':
            g, b = self.variants(t['inner'], ints_only)
            return g, b          # present; (absent decodes to None but cannot be re-encoded)
        if k == 'snapshot_object':
            o = self.objs[tuple(t['name'])]
            return self.struct_variants(self.all_members(o), ints_only)
        raise Unsupported(k)

    def all_members(self, o):
        """members including those of the object it extends (`super`)"""
        m = []
        if o.get('super'):
            m += self.all_members(self.objs[tuple(o['super'])])
        return m + o['members']

    def struct_variants(self, members, ints_only):
        per = [self.variants(m['type'], ints_only) for m in members]
        goods = []
        width = max([len(g) for g, _ in per] + [1])
        for i in range(min(width, 8)):
            goods.append(sum([g[i % len(g)] for g, _ in per], []))
        bads = []
        for idx, (g, b) in enumerate(per):
            for x in b:
                bads.append(sum([(per[j][0][0] if j != idx else x) for j in range(len(per))], []))
        # truncation: drop the last atom of a canonical encoding (only meaningful if there is one)
        if goods and goods[0]:
            last = goods[0][-1]
            if last[0] in ('i', 'B') or (last[0] == 'b' and len(last[1]) > 0 and not (members[-1]['type']['kind'] in ('rest', 'optional', 'packed_addresses', 'serverinfo_client'))):
                if not (members[-1]['type']['kind'] == 'optional'):
                    bads.append(goods[0][:-1])
        return goods, bads


def enc_bytes(atoms):
    out = b''
    for kind, v in atoms:
        out += varint(v) if kind in ('i', 'B') else v
    return out


def enc_ints(atoms):
    return [v for kind, v in atoms]


def fmt_id(i):
    if isinstance(i, int):
        return str(i)
    if isinstance(i, str):
        return i.replace('-', '')
    raise Unsupported('id')


def main(out_dir):
    os.makedirs(out_dir, exist_ok=True)
    summary = {}
    for fname, crate in CRATES.items():
        d = json.load(open(os.path.join(SPEC_DIR, fname)))
        spec = Spec(d)
        lines = []
        skipped = []
        for section, key in (('game', 'game_messages'), ('system', 'system_messages')):
            for m in d.get(key, []):
                try:
                    mid = fmt_id(m['id'])
                    goods, bads = spec.struct_variants(spec.all_members(m) if m.get('super') else m['members'], False)
                except Unsupported as e:
                    skipped.append('%s %s (%s)' % (section, '_'.join(m['name']), e))
                    continue
                for a in goods:
                    lines.append('%s %s ok %s' % (section, mid, enc_bytes(a).hex() or '-'))
                for a in bads:
                    lines.append('%s %s err %s' % (section, mid, enc_bytes(a).hex() or '-'))
        for m in d.get('connless_messages', []):
            try:
                mid = bytes(m['id']).hex()
                assert len(mid) == 16
                goods, bads = spec.struct_variants(m['members'], False)
            except Unsupported as e:
                skipped.append('connless %s (%s)' % ('_'.join(m['name']), e))
                continue
            for a in goods:
                lines.append('connless %s ok %s' % (mid, enc_bytes(a).hex() or '-'))
            for a in bads:
                lines.append('connless %s err %s' % (mid, enc_bytes(a).hex() or '-'))
        for o in d.get('snapshot_objects', []):
            try:
                oid = fmt_id(o['id'])
                goods, bads = spec.struct_variants(spec.all_members(o), True)
            except Unsupported as e:
                skipped.append('obj %s (%s)' % ('_'.join(o['name']), e))
                continue
            for a in goods:
                bools = ','.join(str(i) for i, (kind, _) in enumerate(a) if kind == 'B')
                lines.append('obj %s ok %s %s' % (oid, ','.join(str(x) for x in enc_ints(a)) or '-', bools or '-'))
            for a in bads:
                lines.append('obj %s err %s' % (oid, ','.join(str(x) for x in enc_ints(a)) or '-'))
        with open(os.path.join(out_dir, crate + '.vec'), 'w') as f:
            f.write('\n'.join(lines) + '\n')
        with open(os.path.join(out_dir, crate + '.skipped'), 'w') as f:
            f.write('\n'.join(skipped) + '\n')
        summary[crate] = (len(lines), len(skipped))
    print('c14 vectors:', summary)


if __name__ == '__main__':
    main(sys.argv[1] if len(sys.argv) > 1 else '/verif/build/c14')
