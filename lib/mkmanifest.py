#!/usr/bin/env python3
"""Regenerate MANIFEST.json from props.toml + na.toml (kept valid at all times)."""
import json, os, subprocess, tomllib
V = os.path.dirname(os.path.dirname(os.path.abspath(__file__)))
props = tomllib.load(open(os.path.join(V, 'props.toml'), 'rb'))
na = tomllib.load(open(os.path.join(V, 'na.toml'), 'rb'))
ids = [json.loads(l)['id'] for l in open(os.path.join(V, 'properties.jsonl'))]
try:
    hooks = subprocess.run(['git', '-C', '/repo', 'log', '--format=%H %s'], capture_output=True, text=True).stdout.split('\n')
    hook_commits = [l.split()[0] for l in hooks if ' verif hook' in l]
except Exception:
    hook_commits = []
checks = []
for pid in ids:
    if pid not in props:
        continue
    c = props[pid]
    checks.append({
        'property_id': pid,
        'quick_cmd': './check %s --tier quick' % pid,
        'thorough_cmd': './check %s --tier thorough' % pid,
        'evidence_file': '/verif/evidence/%s.json' % pid,
        'replay_cmd_template': './check %s --replay {path}' % pid,
        'engine': 'contracts',
        'level_claimed': {'category': c.get('level', 'proof'), 'text': c['level_text'], 'design_ref': c.get('design_ref', 'DESIGN.md section 6')},
        'level_note': c['level_note'],
        'technique': c['technique'],
    })
m = {
    'version': 1,
    'setup_cmd': './setup.sh',
    'hooks': {
        'guard': 'cfg(libtw2_verif) / cfg(kani)',
        'enable': 'Kani sets cfg(kani) itself; counterexample replays build with RUSTFLAGS="--cfg libtw2_verif"; Verus needs no hook (reads source text)',
        'baseline_off_cmd': 'cd /repo && cargo test --workspace --no-fail-fast --offline',
        'source_commits': hook_commits,
        'add_only': True,
    },
    'engines': [{
        'name': 'contracts',
        'path': '/verif/check',
        'serves_properties': [c['property_id'] for c in checks],
        'kind_free_text': 'contract-based deductive verification: Verus on functions extracted mechanically from /repo each run + Kani contract harnesses compiled into the real crates',
    }],
    'checks': checks,
    'not_applicable': [{'property_id': k, 'reason': v['reason']} for k, v in na.items() if k not in props],
    'notes': 'exit codes of ./check: 0 all obligations discharged; 1 VIOLATION; 2 undecided (lost anchor / unsupported construct / rlimit / build error) -- never an alarm. See DESIGN.md.',
}
json.dump(m, open(os.path.join(V, 'MANIFEST.json'), 'w'), indent=1)
print('MANIFEST.json: %d checks, %d not applicable' % (len(checks), len(m['not_applicable'])))
