"""Back-end runners: Verus (extracted units) and Kani (in-crate harnesses)."""
import json
import os
import re
import shutil
import subprocess
import time

from extract import build_unit, ExtractError

VERIF = os.path.dirname(os.path.dirname(os.path.abspath(__file__)))
REPO = os.environ.get("VERIF_REPO", "/repo")
BUILD = os.path.join(VERIF, "build")
CACHE = os.path.join(VERIF, ".cache")

# Verus messages that are genuine failed proof obligations.  Everything else
# that makes Verus fail (rustc errors, unsupported constructs, rlimit) is
# "undecided".
VERUS_OBLIGATION_ERRORS = [
    ("postcondition not satisfied", "ensures"),
    ("precondition not satisfied", "requires@callsite"),
    ("assertion failed", "panic-free(assert)"),
    ("possible arithmetic underflow/overflow", "overflow"),
    ("possible bit shift underflow/overflow", "shift"),
    ("possible division by zero", "div-by-zero"),
    ("loop invariant not satisfied", "invariant-init"),
    ("invariant not satisfied at end of loop body", "invariant-preserved"),
    ("invariant not satisfied before loop", "invariant-init"),
    ("decreases not satisfied", "decreases"),
    ("unable to prove assertion", "lemma"),
    ("could not show termination", "decreases"),
    ("assertion not satisfied", "panic-free(assert)"),
    ("index out of bounds", "panic-free(index)"),
    ("index in bounds", "panic-free(index)"),
    ("precondition not met", "requires@callsite"),
    ("recommendation not met", None),  # recommends: note only
    ("possible truncation", "overflow"),
    ("unreachable", "panic-free(unreachable)"),
    ("precondition of", "requires@callsite"),
    ("fails to satisfy `callee.requires(args)`", "requires@callsite"),
]
VERUS_UNDECIDED = ["Resource limit (rlimit) exceeded", "rlimit"]


def _run(cmd, cwd=None, env=None, timeout=None):
    t0 = time.time()
    try:
        p = subprocess.run(cmd, cwd=cwd, env=env, stdout=subprocess.PIPE, stderr=subprocess.PIPE,
                           timeout=timeout, text=True, errors='replace')
        return p.returncode, p.stdout, p.stderr, time.time() - t0
    except subprocess.TimeoutExpired as e:
        out = e.stdout.decode(errors='replace') if isinstance(e.stdout, bytes) else (e.stdout or '')
        err = e.stderr.decode(errors='replace') if isinstance(e.stderr, bytes) else (e.stderr or '')
        return -9, out, err + "\nTIMEOUT after %ss" % timeout, time.time() - t0


def parse_verus_errors(stderr, gen_name):
    """Split rustc-style diagnostics into blocks; return list of dicts."""
    blocks = re.split(r'\n(?=error|warning|note:)', '\n' + stderr)
    res = []
    for b in blocks:
        b = b.strip('\n')
        if not b.startswith('error'):
            continue
        first = b.split('\n', 1)[0]
        msg = re.sub(r'^error(\[[A-Z0-9]+\])?:\s*', '', first)
        if msg.startswith('aborting due to'):
            continue
        locs = [(int(l), int(c)) for (l, c) in re.findall(re.escape(gen_name) + r':(\d+):(\d+)', b)]
        # the "failed this ..." line is the contract clause; first --> is primary
        kind = None
        oblig = False
        for pat, k in VERUS_OBLIGATION_ERRORS:
            if pat in msg:
                kind = k
                oblig = k is not None
                break
        undec = any(u in msg for u in VERUS_UNDECIDED)
        res.append({'msg': msg, 'kind': kind, 'obligation': oblig and not undec, 'undecided_reason':
                    ('rlimit' if undec else (None if oblig else 'not a proof obligation: ' + msg)),
                    'locs': locs, 'text': b})
    return res


def count_air_asserts(logdir):
    counts = {}
    try:
        files = [f for f in os.listdir(logdir) if f.endswith('.air')]
    except OSError:
        return counts
    for f in files:
        cur = None
        for line in open(os.path.join(logdir, f), errors='replace'):
            if line.startswith(';; Function-Def '):
                cur = line.split()[2]
            elif cur and re.match(r'^\s*\(assert\s*$', line):
                counts[cur] = counts.get(cur, 0) + 1
    return counts


def run_verus_unit(unit, seed=0, rlimit=None, canary=None, threads=8, tag=''):
    """Returns dict(status in ok|fail|undecided, ...)."""
    unit_dir = os.path.join(VERIF, 'units', unit)
    gen_name = unit + (tag or '') + '.rs'
    gen = os.path.join(BUILD, gen_name)
    res = {'backend': 'verus', 'unit': unit, 'file': gen, 'functions': [], 'errors': [], 'obligations': 0,
           'discharged': 0, 'solver_s': 0.0, 'wall_s': 0.0, 'extraction': [], 'trusted': []}
    try:
        spec, log, linemap = build_unit(unit_dir, gen, canary=canary)
    except ExtractError as e:
        res['status'] = 'undecided'
        res['reason'] = 'extraction: %s' % e
        return res
    except Exception as e:  # toml errors etc.
        res['status'] = 'undecided'
        res['reason'] = 'extraction (internal): %r' % e
        return res
    res['extraction'] = log
    res['linemap'] = linemap
    res['spec'] = {k: spec.get(k) for k in ('name', 'serves', 'about', 'assumes')}
    logdir = os.path.join(BUILD, unit + (tag or '') + '.log')
    shutil.rmtree(logdir, ignore_errors=True)
    cmd = ['verus', gen_name, '--output-json', '--time-expanded', '--multiple-errors', '4',
           '--num-threads', str(threads), '--log', 'air', '--log-dir', logdir]
    rl = rlimit or spec.get('rlimit')
    if rl:
        cmd += ['--rlimit', str(rl)]
    if seed:
        cmd += ['--smt-option', 'smt.random_seed=%d' % seed]
    res['cmd'] = 'cd %s && %s' % (BUILD, ' '.join(cmd))
    rc, out, err, wall = _run(cmd, cwd=BUILD, timeout=int(spec.get('timeout', 600)))
    res['wall_s'] = wall
    res['stderr'] = err
    try:
        j = json.loads(out)
    except Exception:
        j = None
    errs = parse_verus_errors(err, gen_name)
    asserts = count_air_asserts(logdir)
    crate = unit.replace('-', '_') + (tag or '')
    if j and 'times-ms' in j:
        smt = j['times-ms'].get('smt', {})
        res['solver_s'] = smt.get('total', 0) / 1000.0
        for m in smt.get('smt-run-module-times', []):
            for f in m.get('function-breakdown', []):
                name = f['function']
                res['functions'].append({'function': name, 'mode': f.get('mode:'), 'ok': f.get('success'),
                                         'smt_ms': f.get('time'), 'rlimit': f.get('rlimit'),
                                         'obligations': asserts.get(name, 0)})
    vr = (j or {}).get('verification-results', {})
    res['verus_verified'] = vr.get('verified')
    res['verus_errors'] = vr.get('errors')
    n_obl = sum(f['obligations'] for f in res['functions'])
    n_fail = len([e for e in errs if e['obligation']])
    res['obligations'] = n_obl
    # attach items to errors
    for e in errs:
        e['item'] = None
        for (l, c) in e['locs']:
            for (a, b, what, rl) in linemap:
                if a <= l <= b:
                    e['item'] = what
                    e['repo_line'] = rl + (l - a)
                    break
            if e['item']:
                break
    res['errors'] = errs
    hard = [e for e in errs if not e['obligation']]
    if rc == 0 and vr.get('success') and not errs:
        res['status'] = 'ok'
        res['discharged'] = n_obl
    elif rc == -9:
        res['status'] = 'undecided'
        res['reason'] = 'verus timeout'
    elif hard or not vr or vr.get('encountered-vir-error') or (vr.get('verified', 0) + vr.get('errors', 0) == 0):
        res['status'] = 'undecided'
        res['reason'] = '; '.join((e['undecided_reason'] or e['msg']) for e in hard[:3]) or 'verus did not run verification'
    else:
        res['status'] = 'fail'
        res['discharged'] = max(0, n_obl - n_fail)
    return res


def scan_trusted(path):
    """Mechanical scan of a generated file for unchecked assumptions."""
    found = []
    try:
        lines = open(path).read().split('\n')
    except OSError:
        return found
    pat = re.compile(r'assume\(|admit\(|external_body|assume_specification|verifier::external|#\[verifier::trusted|unimplemented!\(\)')
    for i, l in enumerate(lines):
        if pat.search(l) and not l.strip().startswith('//'):
            ctx = l.strip()
            if 'external_body' in l or 'assume_specification' in l:
                # show the following signature line
                for k in range(i + 1, min(i + 6, len(lines))):
                    if re.search(r'\b(fn|struct|enum|type)\b', lines[k]):
                        ctx += ' ' + lines[k].strip()
                        break
            found.append(ctx[:200])
    return found


# ---------------------------------------------------------------------------
# Kani
# ---------------------------------------------------------------------------

def kani_env():
    env = dict(os.environ)
    env['CARGO_NET_OFFLINE'] = 'true'
    env['CARGO_TARGET_DIR'] = os.path.join(CACHE, 'kani')
    env.pop('RUSTFLAGS', None)
    return env


def parse_kani(out):
    """Parse terse output (possibly with 'Thread N: ' prefixes)."""
    res = {}
    cur = {}
    lines = out.split('\n')
    i = 0
    th = None
    while i < len(lines):
        line = lines[i]
        m = re.match(r'^(Thread (\d+): )?Checking harness ([\w:]+)\.\.\.', line)
        if m:
            th = m.group(2) or '0'
            cur[th] = m.group(3)
            res[cur[th]] = {'harness': m.group(3), 'status': 'unknown', 'checks': 0, 'failed': 0, 'failed_checks': [],
                            'cover_total': 0, 'cover_sat': 0, 'time_s': None}
            i += 1
            continue
        m = re.match(r'^Thread (\d+): *$', line)
        if m:
            th = m.group(1)
            i += 1
            continue
        h = cur.get(th if th is not None else '0')
        if h:
            r = res[h]
            m = re.match(r'^ \*\* (\d+) of (\d+) failed', line)
            if m:
                r['failed'] = int(m.group(1))
                r['checks'] = int(m.group(2))
            m = re.match(r'^ \*\* (\d+) of (\d+) cover properties satisfied', line)
            if m:
                r['cover_sat'] = int(m.group(1))
                r['cover_total'] = int(m.group(2))
            m = re.match(r'^Failed Checks: (.*)', line)
            if m:
                fc = {'desc': m.group(1), 'where': ''}
                if i + 1 < len(lines) and lines[i + 1].strip().startswith('File:'):
                    fc['where'] = lines[i + 1].strip()
                r['failed_checks'].append(fc)
            m = re.match(r'^VERIFICATION:- (\w+)', line)
            if m:
                r['status'] = m.group(1)
            m = re.match(r'^Verification Time: ([\d.]+)s', line)
            if m:
                r['time_s'] = float(m.group(1))
        i += 1
    return res


def run_kani(crate, harnesses, jobs=4, timeout=1800, extra=None):
    cmd = ['cargo', 'kani', '-p', crate, '--output-format', 'terse', '-j', str(jobs)]
    for h in harnesses:
        cmd += ['--harness', h]
    if extra:
        cmd += extra
    rc, out, err, wall = _run(cmd, cwd=REPO, env=kani_env(), timeout=timeout)
    parsed = parse_kani(out)
    res = {'backend': 'kani', 'crate': crate, 'cmd': 'cd %s && CARGO_NET_OFFLINE=true CARGO_TARGET_DIR=%s %s' % (
        REPO, os.path.join(CACHE, 'kani'), ' '.join(cmd)), 'wall_s': wall, 'rc': rc, 'harnesses': [], 'stdout_tail': out[-4000:],
        'stderr_tail': err[-4000:]}
    for h in harnesses:
        full = None
        for k in parsed:
            if k.split('::')[-1] == h:
                full = k
        if full is None:
            res['harnesses'].append({'harness': h, 'status': 'undecided', 'reason': 'harness did not run (build error or timeout)',
                                     'checks': 0, 'failed': 0, 'failed_checks': []})
            continue
        r = parsed[full]
        r['harness'] = h
        st = r['status']
        if st == 'SUCCESSFUL':
            if r['cover_total'] and r['cover_sat'] < r['cover_total']:
                r['status'] = 'undecided'
                r['reason'] = 'vacuity guard unsatisfied (precondition unreachable)'
            else:
                r['status'] = 'ok'
        elif st == 'FAILED':
            real = [f for f in r['failed_checks'] if 'unwinding assertion' not in f['desc']
                    and 'not currently supported' not in f['desc'] and 'unsupported' not in f['desc'].lower()]
            if real:
                r['status'] = 'fail'
            else:
                r['status'] = 'undecided'
                r['reason'] = 'only unwinding/unsupported-construct checks failed: ' + '; '.join(
                    f['desc'] for f in r['failed_checks'][:3])
        else:
            r['status'] = 'undecided'
            r['reason'] = 'kani status %s' % st
        res['harnesses'].append(r)
    return res


def kani_counterexample(crate, harness, timeout=1800):
    """Re-run one failing harness with concrete playback; return list of byte vectors or None."""
    cmd = ['cargo', 'kani', '-p', crate, '--harness', harness, '--output-format', 'terse',
           '-Z', 'concrete-playback', '--concrete-playback=print']
    rc, out, err, wall = _run(cmd, cwd=REPO, env=kani_env(), timeout=timeout)
    # one generated test per failed check *and* per satisfied cover: take the
    # first one that belongs to a failed (non-cover) check
    blocks = re.split(r'(?=/// Test generated for harness)', out)
    chosen = None
    for b in blocks:
        if 'let concrete_vals' not in b:
            continue
        if re.search(r'/// Check for `cover`', b):
            continue
        chosen = b
        break
    if chosen is None:
        return None, out[-3000:]
    m = re.search(r'let concrete_vals: Vec<Vec<u8>> = vec!\[(.*?)\n    \];', chosen, re.S)
    if not m:
        return None, out[-3000:]
    vals = []
    for vm in re.finditer(r'vec!\[([0-9, ]*)\]', m.group(1)):
        vals.append([int(x) for x in vm.group(1).replace(' ', '').split(',') if x != ''])
    return vals, out[-3000:]


def replay_native(crate, harness, replay_file, timeout=1800):
    """Run the same contract body on the real code with the normal toolchain."""
    env = dict(os.environ)
    env['RUSTFLAGS'] = '--cfg libtw2_verif'
    env['CARGO_TARGET_DIR'] = os.path.join(CACHE, 'replay')
    env['VERIF_REPLAY'] = replay_file
    env['RUST_BACKTRACE'] = '0'
    cmd = ['cargo', 'test', '--offline', '-p', crate, '--lib', 'verif_kani::proofs::' + harness, '--',
           '--nocapture', '--test-threads', '1']
    rc, out, err, wall = _run(cmd, cwd=REPO, env=env, timeout=timeout)
    ran = re.search(r'test (?:\w+::)*verif_kani::proofs::%s \.\.\. (\w+)' % re.escape(harness), out + err)
    m = re.search(r"panicked at ([^\n]*)\n([^\n]*)", out + err)
    return {
        'cmd': 'cd %s && RUSTFLAGS="--cfg libtw2_verif" VERIF_REPLAY=%s %s' % (REPO, replay_file, ' '.join(cmd)),
        # with --nocapture the verdict word can be separated from `test <name> ...` by the harness' own output: also accept the
        # summary line of this single-test run together with a panic message
        'reproduced': bool(ran and ran.group(1) == 'FAILED') or bool(
            re.search(r'test result: FAILED\. 0 passed; 1 failed', out + err) and m and harness in (out + err))
            # the replay did not return: the watchdog of kani/draw.rs ended the process (non-termination is a counterexample too)
            or ('SAMPLED-HANG harness=%s' % harness) in (out + err),
        'ran': bool(ran) or ('running 1 test' in (out + err)),
        'panic': (m.group(1) + ' ' + m.group(2)) if m else (
            'iteration did not return (watchdog)' if 'SAMPLED-HANG' in (out + err) else None),
        'output_tail': (out + err)[-2500:],
    }


def run_sampled(crate, harnesses, n=20000, seed=1, timeout=1800):
    """Run `sampled_*` contract harnesses natively on PRNG draws (draw.rs, third driver).  A sampled check can only
    find counterexamples (written as replay files); it is never counted as discharged."""
    env = dict(os.environ)
    env['RUSTFLAGS'] = '--cfg libtw2_verif'
    env['CARGO_TARGET_DIR'] = os.path.join(CACHE, 'replay')
    env['VERIF_SAMPLE'] = '%d:%d' % (n, seed)
    prefix = os.path.join(VERIF, 'replays', 'sample_%s_' % crate)
    os.makedirs(os.path.dirname(prefix), exist_ok=True)
    env['VERIF_SAMPLE_OUT'] = prefix
    env['RUST_BACKTRACE'] = '0'
    env.pop('VERIF_REPLAY', None)
    for h in harnesses:
        try:
            os.remove(prefix + h + '.txt')
        except OSError:
            pass
    cmd = ['cargo', 'test', '--offline', '-p', crate, '--lib', 'verif_kani::proofs::sampled_', '--', '--nocapture']
    rc, out, err, wall = _run(cmd, cwd=REPO, env=env, timeout=timeout)
    text = out + err
    res = []
    for h in harnesses:
        m = re.search(r'SAMPLED harness=%s iterations=(\d+) passed_precondition=(\d+)' % re.escape(h), text)
        st = re.search(r'test (?:\w+::)*verif_kani::proofs::%s \.\.\. (\w+)' % re.escape(h), text)
        if not st:
            st2 = re.search(r'verif_kani::proofs::%s' % re.escape(h), text)
        cx = re.search(r'SAMPLED-COUNTEREXAMPLE harness=%s panic=([^\n]*)' % re.escape(h), text)
        r = {'harness': h, 'iterations': int(m.group(1)) if m else 0, 'accepted': int(m.group(2)) if m else 0,
             'replay_file': prefix + h + '.txt', 'panic': cx.group(1) if cx else None}
        failed = bool(cx) or ('%s ... FAILED' % h) in text or re.search(r'%s stdout ----' % re.escape(h), text) is not None and 'FAILED' in text
        if cx and os.path.exists(r['replay_file']):
            r['status'] = 'fail'
        elif m and not failed and r['accepted'] > 0:
            r['status'] = 'ok'
        else:
            r['status'] = 'undecided'
            r['reason'] = 'sampled harness did not run (build error / filtered out / vacuous): ' + text[-800:].replace('\n', ' / ')
        res.append(r)
    return {'crate': crate, 'cmd': 'cd %s && RUSTFLAGS="--cfg libtw2_verif" VERIF_SAMPLE=%d:%d %s' % (REPO, n, seed, ' '.join(cmd)),
            'wall_s': wall, 'harnesses': res, 'rc': rc}


def canary_targets(unit):
    """(find, fn name) of every function of the unit that is verified against a contract."""
    import tomllib
    spec = tomllib.load(open(os.path.join(VERIF, 'units', unit, 'unit.toml'), 'rb'))
    out = []
    for it in spec.get('item', []):
        if it.get('outer') or it.get('mode', 'verify') != 'verify' or not it.get('contract'):
            continue
        m = re.search(r'\bfn\s+([A-Za-z_][A-Za-z_0-9]*)', it['find'])
        if not m:
            continue
        name = m.group(1)
        inside = it.get('inside') or (it.get('wrap') if isinstance(it.get('wrap'), str) else None)
        if inside and re.match(r'\s*impl\b', inside):
            t = re.sub(r'^\s*impl\s*', '', inside)
            if t.startswith('<'):      # skip the impl's generic parameter list
                depth = 0
                for k, ch in enumerate(t):
                    depth += ch == '<'
                    depth -= ch == '>'
                    if depth == 0:
                        t = t[k + 1:]
                        break
            if ' for ' in t:
                t = t.split(' for ', 1)[1]
            tm = re.match(r'\s*([A-Za-z_][A-Za-z_0-9]*)', t)
            if tm:
                name = tm.group(1) + '::' + name
        out.append((it['find'], name))
    return out


def run_canary(unit, find, fn_name, idx, rlimit=None):
    """Vacuity guard: re-extract the unit with `ensures false` appended to this one function's contract and verify
    only that function.  The verifier MUST report an error; if it does not, the function's preconditions (or an
    assumption in its body) are contradictory and its normal 'verified' verdict means nothing."""
    unit_dir = os.path.join(VERIF, 'units', unit)
    gen_name = '%s_canary_%d.rs' % (unit, idx)
    gen = os.path.join(BUILD, gen_name)
    try:
        spec, log, linemap = build_unit(unit_dir, gen, canary=find)
    except Exception as e:
        return {'unit': unit, 'function': fn_name, 'status': 'undecided', 'reason': 'extraction: %s' % e}
    cmd = ['verus', gen_name, '--output-json', '--num-threads', '2', '--verify-root', '--verify-function', fn_name]
    rl = rlimit or spec.get('rlimit')
    if rl:
        cmd += ['--rlimit', str(rl)]
    rc, out, err, wall = _run(cmd, cwd=BUILD, timeout=int(spec.get('timeout', 600)))
    if 'more than one match found for --verify-function' in err:
        # several functions share the name: verify all of them; only the canaried one can fail
        cmd[cmd.index('--verify-function') + 1] = '*%s*' % fn_name
        rc, out, err, wall = _run(cmd, cwd=BUILD, timeout=int(spec.get('timeout', 600)))
    try:
        vr = json.loads(out).get('verification-results', {})
    except Exception:
        vr = {}
    try:
        os.remove(gen)
    except OSError:
        pass
    r = {'unit': unit, 'function': fn_name, 'wall_s': wall}
    if vr.get('errors', 0) >= 1 and 'postcondition not satisfied' in err:
        r['status'] = 'ok'          # the impossible postcondition is refused: the contract is not vacuous
    elif vr.get('errors', 0) == 0 and vr.get('verified', 0) >= 1 and vr.get('success'):
        r['status'] = 'vacuous'
    else:
        r['status'] = 'undecided'
        r['reason'] = (err or out)[-400:].replace('\n', ' / ')
    return r
