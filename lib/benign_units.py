#!/usr/bin/env python3
"""Fast benign sweep at unit level: apply each benign/*.diff to a scratch worktree of /repo (never to /repo itself), run every Verus
unit that extracts from a patched file with VERIF_REPO pointing at the worktree, and report ok / undecided / FAIL.
A FAIL is a false alarm (the patch preserves the property); undecided (lost anchor) is brittleness, not an alarm.
Usage: lib/benign_units.py [pattern]      (scratch worktree: /tmp/benignwt, removed afterwards)"""
import fnmatch, glob, json, os, subprocess, sys, tomllib
V = os.path.dirname(os.path.dirname(os.path.abspath(__file__)))
WT = '/tmp/benignwt'
pat = sys.argv[1] if len(sys.argv) > 1 else '*'
def sh(c, **kw): return subprocess.run(c, shell=True, capture_output=True, text=True, **kw)
sh('git -C /repo worktree remove --force %s; git -C /repo worktree prune' % WT)
assert sh('git -C /repo worktree add -q --detach %s HEAD' % WT).returncode == 0
units = {}
for u in sorted(os.listdir(os.path.join(V, 'units'))):
    t = os.path.join(V, 'units', u, 'unit.toml')
    if os.path.exists(t):
        units[u] = {it['file'] for it in tomllib.load(open(t, 'rb')).get('item', [])}
bad = 0
def status(u):
    r = sh('cd %s && VERIF_REPO=%s ./check unit %s' % (V, WT, u))
    try:
        j = json.loads(r.stdout[r.stdout.index('{'):r.stdout.index('}') + 1])
        return j['status'], j.get('discharged')
    except Exception:
        return 'undecided', None
base = {}
try:
    for d in sorted(glob.glob(os.path.join(V, 'benign', '*.diff'))):
        name = os.path.basename(d)
        if not fnmatch.fnmatch(name, pat):
            continue
        files = {l[6:].strip() for l in open(d) if l.startswith('+++ b/')}
        if sh('git -C %s apply %s' % (WT, d)).returncode != 0:
            print('%-34s patch does not apply (stale)' % name); continue
        for u, fs in units.items():
            if fs & files:
                if u not in base:
                    # status on the unchanged tree (a unit with a recorded known finding fails there too)
                    sh('git -C %s stash -q' % WT); base[u] = status(u); sh('git -C %s stash pop -q' % WT)
                st = status(u)
                same = st == base[u]
                alarm = st[0] == 'fail' and not same
                if alarm:
                    bad += 1
                print('%-34s %-12s %s' % (name, u, 'same as unchanged tree (%s)' % st[0] if same else ('FAIL (false alarm)' if alarm else 'undecided (brittle anchor / unsupported construct)')), flush=True)
        sh('git -C %s checkout -- .' % WT)
finally:
    sh('git -C /repo worktree remove --force %s' % WT)
sys.exit(1 if bad else 0)
