"""Mechanical extraction of Rust items from /repo and splicing of a contract overlay.

The verified text is the code that runs: every executable byte of an extracted
item is copied from the current working tree.  The only edits are
  * INS  ghost insertions (requires/ensures/invariant/decreases/proof blocks,
         a name for the return value, attributes such as #[derive(..)] that the
         original carried but that are outside the item text),
  * SUB  listed exact-substring substitutions (each must match exactly `count`
         times, otherwise: lost anchor),
  * DROP the body of an item extracted in `trusted` mode (signature + contract
         only, body replaced by unimplemented!(), marked external_body).
All of them are logged per item.  Any failure to locate something raises
ExtractError -> exit code 2 (undecided), never a violation.
"""
import hashlib
import os
import re
import tomllib

REPO = os.environ.get("VERIF_REPO", "/repo")


class ExtractError(Exception):
    pass


# --------------------------------------------------------------------------
# A tiny Rust lexer: enough to skip comments, strings, chars and lifetimes so
# that brace / paren matching is reliable.
# --------------------------------------------------------------------------

def code_mask(src):
    """Return a bytearray m with m[i]==1 iff src[i] is code (not comment/str/char)."""
    n = len(src)
    m = bytearray(n)
    i = 0
    while i < n:
        c = src[i]
        if c == '/' and i + 1 < n and src[i + 1] == '/':
            j = src.find('\n', i)
            if j < 0:
                j = n
            i = j
            continue
        if c == '/' and i + 1 < n and src[i + 1] == '*':
            depth = 1
            j = i + 2
            while j < n and depth:
                if src.startswith('/*', j):
                    depth += 1
                    j += 2
                elif src.startswith('*/', j):
                    depth -= 1
                    j += 2
                else:
                    j += 1
            i = j
            continue
        if c == '"' or (c == 'b' and src.startswith('b"', i)):
            j = i + (2 if c == 'b' else 1)
            while j < n and src[j] != '"':
                if src[j] == '\\':
                    j += 1
                j += 1
            i = j + 1
            continue
        if c == 'r' or (c == 'b' and src.startswith('br', i)):
            mm = re.match(r'b?r(#*)"', src[i:i + 40])
            if mm and (i == 0 or not (src[i - 1].isalnum() or src[i - 1] == '_')):
                hashes = mm.group(1)
                end = src.find('"' + hashes, i + len(mm.group(0)))
                if end < 0:
                    end = n
                i = end + 1 + len(hashes)
                continue
        if c == "'" or (c == 'b' and src.startswith("b'", i)):
            k = i + (1 if c == 'b' else 0)
            mm = re.match(r"'(\\x[0-9a-fA-F]{2}|\\u\{[0-9a-fA-F]+\}|\\.|[^\\'])'", src[k:k + 14])
            if mm:
                i = k + len(mm.group(0))
                continue
            # lifetime: code
        m[i] = 1
        i += 1
    return m


OPEN = {'(': ')', '[': ']', '{': '}'}
CLOSE = {')', ']', '}'}


def match_close(src, mask, pos):
    """pos points at an opening bracket (code). Return index of its matching close."""
    depth = 0
    i = pos
    n = len(src)
    while i < n:
        if mask[i]:
            c = src[i]
            if c in OPEN:
                depth += 1
            elif c in CLOSE:
                depth -= 1
                if depth == 0:
                    return i
        i += 1
    raise ExtractError("unbalanced bracket at offset %d" % pos)


def item_extent(src, mask, start):
    """Item starting at `start` (beginning of header line text).  Returns end
    offset (exclusive, after the closing brace or semicolon)."""
    i = start
    n = len(src)
    depth = 0
    while i < n:
        if mask[i]:
            c = src[i]
            if c in '([':
                i = match_close(src, mask, i)
            elif c == '{':
                return match_close(src, mask, i) + 1
            elif c == ';' and depth == 0:
                return i + 1
        i += 1
    raise ExtractError("item without end at offset %d" % start)


def line_start(src, pos):
    return src.rfind('\n', 0, pos) + 1


VIS = re.compile(r'^(pub(\([^)]*\))?\s+)?')


def strip_vis(s):
    return VIS.sub('', s, count=1)


def find_header(src, mask, find, lo, hi, what, nth=None):
    """Find the unique line in src[lo:hi] whose stripped text (visibility
    removed) starts with `find`; return offset of the first non-blank char."""
    hits = []
    pos = lo
    while pos < hi:
        e = src.find('\n', pos)
        if e < 0 or e > hi:
            e = hi
        line = src[pos:e]
        st = line.lstrip()
        off = pos + (len(line) - len(st))
        if st and mask[off] and (strip_vis(st).startswith(find) or st.startswith(find)):
            hits.append(off)
        pos = e + 1
    if nth is not None:
        # several items with the same header (e.g. two `impl X {` blocks): the overlay names which one
        if nth >= len(hits):
            raise ExtractError("lost anchor: %s: header %r found %d times, overlay wants #%d" % (what, find, len(hits), nth))
        return hits[nth]
    if len(hits) != 1:
        raise ExtractError("lost anchor: %s: header %r found %d times" % (what, find, len(hits)))
    return hits[0]


def body_open(src, mask, start, end):
    """First `{` at paren/bracket depth 0 in src[start:end]."""
    i = start
    while i < end:
        if mask[i]:
            c = src[i]
            if c in '([':
                i = match_close(src, mask, i)
            elif c == '{':
                return i
        i += 1
    raise ExtractError("no body")


def name_return(sig, ret):
    """sig: text of a fn signature up to (not including) the body `{`.
    Wrap the return type as `-> (ret: T)`."""
    mask = code_mask(sig)
    # locate the parameter list: first '(' at angle depth 0 after 'fn'
    m = re.search(r'\bfn\s+\w+', sig)
    if not m:
        raise ExtractError("not a fn signature: %r" % sig[:60])
    i = m.end()
    angle = 0
    n = len(sig)
    while i < n:
        if mask[i]:
            c = sig[i]
            if c == '-' and sig[i:i + 2] == '->':
                i += 2
                continue
            if c == '<':
                angle += 1
            elif c == '>':
                angle -= 1
            elif c == '(' and angle == 0:
                break
            elif c == '(':
                i = match_close(sig, mask, i)
        i += 1
    close = match_close(sig, mask, i)
    rest = sig[close + 1:]
    m2 = re.match(r'\s*->\s*', rest)
    if not m2:
        raise ExtractError("ret name given but fn has no return type")
    tstart = close + 1 + m2.end()
    # the type extends to a top-level `where` or the end
    j = tstart
    depth = 0
    tend = n
    while j < n:
        if mask[j]:
            c = sig[j]
            if c in '([':
                j = match_close(sig, mask, j)
            elif sig[j:j + 5] == 'where' and (j == 0 or not (sig[j - 1].isalnum() or sig[j - 1] == '_')) \
                    and (j + 5 >= n or not (sig[j + 5].isalnum() or sig[j + 5] == '_')):
                tend = j
                break
        j += 1
    ty = sig[tstart:tend]
    return tstart, tstart + len(ty.rstrip())


LOOP_RE = re.compile(r"^(\s*)('[a-z_]+:\s*)?(for|while|loop)\b")


def find_loops(body, mask_body):
    """Return list of (kw_offset, brace_offset) of loops in textual order."""
    res = []
    pos = 0
    n = len(body)
    while pos < n:
        e = body.find('\n', pos)
        if e < 0:
            e = n
        line = body[pos:e]
        m = LOOP_RE.match(line)
        if m and mask_body[pos + m.start(3)]:
            kw = pos + m.start(3)
            start = kw
            if m.group(3) == 'for':
                # `for PAT in EXPR {`: the pattern may contain braces (struct patterns); skip to the ` in ` keyword
                i = kw + 3
                while i < n:
                    if mask_body[i]:
                        c = body[i]
                        if c in '([{':
                            i = match_close(body, mask_body, i)
                        elif body[i:i + 2] == 'in' and not (body[i - 1].isalnum() or body[i - 1] == '_') \
                                and (i + 2 >= n or not (body[i + 2].isalnum() or body[i + 2] == '_')):
                            start = i + 2
                            break
                    i += 1
            b = body_open(body, mask_body, start, n)
            res.append((kw, b))
        pos = e + 1
    return res


class Segs:
    """Output assembled from tagged segments so that what was copied and what
    was inserted stays accountable."""

    def __init__(self):
        self.parts = []

    def src(self, t):
        if t:
            self.parts.append(('SRC', t))

    def ins(self, t):
        if t:
            self.parts.append(('INS', t))

    def sub(self, old, new):
        self.parts.append(('SUB', new, old))

    def text(self):
        return ''.join(p[1] for p in self.parts)

    def original(self):
        out = []
        for p in self.parts:
            if p[0] == 'SRC':
                out.append(p[1])
            elif p[0] == 'SUB':
                out.append(p[2])
        return ''.join(out)


def apply_edits(text, edits, what):
    """edits: list of (start, end, kind, newtext) on `text`, non-overlapping.
    Returns Segs."""
    edits = sorted(edits, key=lambda e: (e[0], e[1]))
    s = Segs()
    pos = 0
    for (a, b, kind, new) in edits:
        if a < pos:
            raise ExtractError("overlapping overlay edits in %s at %d" % (what, a))
        s.src(text[pos:a])
        if kind == 'INS':
            s.ins(new)
        else:
            s.sub(text[a:b], new)
        pos = b
    s.src(text[pos:])
    return s


def extract_item(spec, contracts, log):
    path = os.path.join(REPO, spec['file'])
    try:
        src = open(path).read()
    except OSError as e:
        raise ExtractError("lost anchor: cannot read %s: %s" % (path, e))
    mask = code_mask(src)
    lo, hi = 0, len(src)
    what = "%s:%s" % (spec['file'], spec['find'])
    inside = spec.get('inside')
    if inside:
        h = find_header(src, mask, inside, 0, len(src), spec['file'] + ':' + inside, spec.get('inside_nth'))
        e = item_extent(src, mask, h)
        lo = body_open(src, mask, h, e) + 1
        hi = e - 1
    start = find_header(src, mask, spec['find'], lo, hi, what)
    end = item_extent(src, mask, start)
    text = src[start:end]
    tmask = mask[start:end]
    line_no = src.count('\n', 0, start) + 1
    edits = []
    nsub = nins = 0
    mode = spec.get('mode', 'verify')
    is_fn = re.match(r'(pub(\([^)]*\))?\s+)?(const\s+)?(unsafe\s+)?fn\b', text) is not None

    if spec.get('strip_vis', is_fn):
        m = VIS.match(text)
        if m and m.end() > 0:
            edits.append((0, m.end(), 'SUB', ''))
            nsub += 1

    contract = spec.get('contract', '')
    if contract.startswith('@'):
        key = contract[1:].strip()
        if key not in contracts:
            raise ExtractError("unknown shared contract %s" % key)
        cdef = contracts[key]
        contract = cdef['contract']
        if 'ret' in cdef and 'ret' not in spec:
            spec = dict(spec, ret=cdef['ret'])

    if is_fn:
        bo = body_open(text, tmask, 0, len(text))
        sig = text[:bo]
        if spec.get('ret'):
            ts, te = name_return(sig, spec['ret'])
            edits.append((ts, ts, 'INS', '(' + spec['ret'] + ': '))
            edits.append((te, te, 'INS', ')'))
            nins += 1
        if contract.strip():
            sep = '' if sig.endswith('\n') or sig.rstrip(' ').endswith('\n') else '\n'
            edits.append((bo, bo, 'INS', sep + contract.rstrip() + '\n' + ' ' * 0))
            nins += 1
        if mode == 'trusted':
            edits.append((bo, len(text), 'SUB', '{ unimplemented!() }'))
        else:
            body = text[bo:]
            bmask = tmask[bo:]
            loops = find_loops(body, bmask)
            for L in spec.get('loops', []):
                n = L['n']
                if n >= len(loops):
                    raise ExtractError("lost anchor: %s has %d loops, overlay wants #%d" % (what, len(loops), n))
                kw, br = loops[n]
                if 'expect' in L and not body[kw:br].strip().startswith(L['expect']):
                    raise ExtractError("lost anchor: loop #%d of %s is %r, overlay expects %r" % (
                        n, what, body[kw:br].strip()[:60], L['expect']))
                edits.append((bo + br, bo + br, 'INS', '\n' + L['inv'].rstrip() + '\n'))
                nins += 1
    elif contract.strip():
        raise ExtractError("contract on non-fn item " + what)

    if True:
        for S in (spec.get('subst', []) if mode != 'trusted' else spec.get('sig_subst', [])):
            cnt = S.get('count', 1)
            frm = S['from']
            idxs = []
            p = text.find(frm)
            while p >= 0:
                idxs.append(p)
                p = text.find(frm, p + len(frm))
            if len(idxs) != cnt:
                raise ExtractError("lost anchor: substitution %r matches %d times (expected %d) in %s" % (
                    frm[:50], len(idxs), cnt, what))
            for p in idxs:
                edits.append((p, p + len(frm), 'SUB', S['to']))
                nsub += 1
        for P in spec.get('proofs', []):
            anchor = P.get('after') or P.get('before')
            nth = P.get('nth', 0)
            # anchor is matched against stripped lines
            pos = 0
            found = []
            while pos <= len(text):
                e = text.find('\n', pos)
                if e < 0:
                    e = len(text)
                if text[pos:e].strip() == anchor.strip():
                    found.append((pos, e))
                pos = e + 1
            cnt = P.get('count', None)
            if nth >= len(found) or (cnt is not None and cnt != len(found)):
                raise ExtractError("lost anchor: proof anchor %r found %d times in %s" % (anchor, len(found), what))
            a, b = found[nth]
            if 'after' in P:
                edits.append((b, b, 'INS', '\n' + P['text'].rstrip()))
            else:
                edits.append((a, a, 'INS', P['text'].rstrip() + '\n'))
            nins += 1

    # This Verus loses the frame of `&mut` parameters across a match arm with an `if` guard (measured: a guard on a local already makes
    # `ensures final(self).a == old(self).a` fail in an arm that assigns another field).  A guard in a function under contract is
    # therefore only accepted where the overlay expects it (`guards = n`, default 0); anything else is an unsupported construct
    # (exit 2, undecided) -- never an alarm.
    if is_fn and mode != 'trusted':
        n_guards = 0
        for ln in text.split('\n'):
            t = ln.strip()
            if t.startswith(('if ', '} else if ', 'else if ', 'while ', '//', 'assert')) or '==>' in t:
                continue
            if re.search(r'[\w\)\]\}"\']\s+if\s+[^{}]*=>', t):
                n_guards += 1
        if n_guards != spec.get('guards', 0):
            raise ExtractError("unsupported construct: %d match guard(s) in %s (overlay expects %d); this Verus loses the frame of "
                               "&mut parameters across guarded match arms" % (n_guards, what, spec.get('guards', 0)))
    segs = apply_edits(text, edits, what)
    if mode != 'trusted' and not edits:
        assert segs.original() == text
    orig = segs.original()
    if mode == 'trusted':
        # original() contains the dropped body through the SUB segment
        pass
    if orig != text:
        raise ExtractError("internal: overlay is not a pure insertion/substitution on %s" % what)

    pre = spec.get('pre', '')
    out = ''
    body_text = segs.text()
    renames = spec.get('rename', [])
    for (a, b) in renames:
        # identifier rename (whole-word / whole-path); logged per item
        body_text, k = re.subn(r'(?<![A-Za-z0-9_:])' + re.escape(a) + r'(?![A-Za-z0-9_])', b, body_text)
        if k == 0:
            raise ExtractError("lost anchor: rename %r matches nothing in %s" % (a, what))
    if mode == 'trusted':
        out += '#[verifier::external_body]\n'
    if pre:
        out += pre.rstrip() + '\n'
    out += body_text + '\n'
    wrap = spec['wrap'] if 'wrap' in spec else (inside if (inside and is_fn) else None)
    if wrap:
        w = wrap.rstrip()
        if not w.endswith('{'):
            w += ' {'
        out = w + '\n' + out + '}\n'
    log.append({
        'item': what,
        'line': line_no,
        'mode': mode,
        'sha256': hashlib.sha256(text.encode()).hexdigest()[:16],
        'bytes_copied': sum(len(p[1]) for p in segs.parts if p[0] == 'SRC'),
        'ghost_insertions': nins,
        'substitutions': [
            {'from': p[2][:80], 'to': p[1][:80]} for p in segs.parts if p[0] == 'SUB' and mode != 'trusted'
        ],
        'body_dropped': mode == 'trusted',
        'renames': [list(r) for r in renames],
    })
    return out, line_no


def load_contracts(units_dir):
    p = os.path.join(units_dir, 'contracts.toml')
    if not os.path.exists(p):
        return {}
    return tomllib.load(open(p, 'rb'))


def build_unit(unit_dir, out_path, units_dir=None, canary=None):
    """Generate the Verus file for one unit.  Returns (log, linemap).
    linemap: list of (gen_line_start, gen_line_end, item what, repo line)."""
    units_dir = units_dir or os.path.dirname(unit_dir.rstrip('/'))
    spec = tomllib.load(open(os.path.join(unit_dir, 'unit.toml'), 'rb'))
    contracts = load_contracts(units_dir)
    log = []

    def rd(name):
        p = os.path.join(unit_dir, name)
        return open(p).read() if os.path.exists(p) else ''

    out = []
    out.append('// GENERATED by /verif/lib/extract.py from %s -- do not edit\n' % unit_dir)
    out.append('#![allow(unused_imports, dead_code, unused_variables, unused_mut, unused_macros, unused_assignments, unreachable_code, non_snake_case, unused_parens, unused_braces)]\n')
    out.append('use vstd::prelude::*;\n')
    out.append(rd('outer.rs'))
    out.append('\nverus! {\nglobal size_of usize == 8; // usize is 64 bit (stated assumption)\n')
    def expand_contracts(text, where):
        # `//@contract <key>` in an included prelude is replaced by the shared contract text of units/contracts.toml,
        # so that a stub and the unit that proves the function use one and the same text
        def rep(m):
            key = m.group(1)
            if key not in contracts:
                raise ExtractError("unknown shared contract %s in %s" % (key, where))
            return contracts[key]['contract'].rstrip() + '\n'
        return re.sub(r'^[ \t]*//@contract[ \t]+(\S+)[ \t]*\n', rep, text, flags=re.M)
    for inc in spec.get('include', []):
        out.append(expand_contracts(open(os.path.join(units_dir, inc)).read(), inc))
        out.append('\n')
    out.append(expand_contracts(rd('prelude.rs'), 'prelude.rs'))
    out.append('\n')
    linemap = []
    outer_items = []
    for it in spec.get('item', []):
        if it.get('outer'):
            t, line_no = extract_item(it, contracts, log)
            outer_items.append(t + '\n')
    k = [n for n, t in enumerate(out) if t.startswith('\nverus! {\n')][0]
    out[k:k] = outer_items
    cur = ''.join(out).count('\n') + 1
    for it in spec.get('item', []):
        if it.get('outer'):
            continue
        if canary is not None and it.get('mode', 'verify') == 'verify' and it.get('contract'):
            it = dict(it)
            c = it['contract']
            if c.startswith('@'):
                c = contracts[c[1:].strip()]['contract']
                if 'ret' in contracts[it['contract'][1:].strip()] and 'ret' not in it:
                    it['ret'] = contracts[it['contract'][1:].strip()]['ret']
            if canary == it['find'] or canary == '*':
                if 'ensures' in c:
                    c = c.rstrip().rstrip(',') + ',\n        false,\n'
                else:
                    c = c.rstrip() + '\n    ensures false,\n'
                it['contract'] = c
            else:
                it['contract'] = c
        t, line_no = extract_item(it, contracts, log)
        out.append(t)
        out.append('\n')
        n = t.count('\n') + 1
        linemap.append((cur, cur + n - 1, '%s:%s' % (it['file'], it['find']), line_no))
        cur += n
    out.append(rd('lemmas.rs'))
    out.append('\n} // verus!\nfn main() {}\n')
    os.makedirs(os.path.dirname(out_path), exist_ok=True)
    open(out_path, 'w').write(''.join(out))
    return spec, log, linemap


if __name__ == '__main__':
    import sys
    import json
    spec, log, lm = build_unit(sys.argv[1], sys.argv[2])
    print(json.dumps(log, indent=1))
