#!/usr/bin/env python3
"""./check selftest [benign|seeded|all]

benign : apply each /verif/benign/*.diff (property-preserving edits: renamed locals, reordered independent
         statements, equivalent conditions, changed message texts) to /repo, run every claimed check that the
         patch's files can influence, and require exit 0 (no alarm, no 'undecided').  Undone afterwards.
seeded : apply each /verif/seeded/<ID>-m*/patch.diff, run the check of its property, print the verdict
         (expected: exit 1; exit 2 = undecided; exit 0 = missed).
Evidence files are restored afterwards (they must describe the unchanged tree)."""
import fnmatch, glob, json, os, shutil, subprocess, sys, tomllib

V = os.path.dirname(os.path.dirname(os.path.abspath(__file__)))
REPO = '/repo'
ONLY = os.environ.get('SELFTEST_ONLY', '*')   # fnmatch pattern on the patch name (e.g. 'C07-m*', 'b1*')


def sh(cmd, **kw):
    return subprocess.run(cmd, shell=True, capture_output=True, text=True, **kw)


def props_for_files(files):
    """properties whose units or harnesses read one of these files"""
    props = tomllib.load(open(os.path.join(V, 'props.toml'), 'rb'))
    out = []
    for pid, cfg in props.items():
        hit = False
        for u in cfg.get('verus', []):
            spec = tomllib.load(open(os.path.join(V, 'units', u, 'unit.toml'), 'rb'))
            if any(it['file'] in files for it in spec.get('item', [])):
                hit = True
        crates = {g['crate'] for g in cfg.get('kani', []) + cfg.get('sampled', [])}
        for f in files:
            top = f.split('/')[0]
            if any(c == 'libtw2-' + top or c == top for c in crates):
                hit = True
        if hit:
            out.append(pid)
    return sorted(out)


def main(args):
    mode = args[0] if args else 'benign'
    if sh('git -C /repo diff --quiet').returncode != 0:
        print('/repo has uncommitted changes; refusing')
        return 2
    bak = '/tmp/selftest_evidence_backup'
    shutil.rmtree(bak, ignore_errors=True)
    shutil.copytree(os.path.join(V, 'evidence'), bak)
    rc = 0
    try:
        if mode in ('benign', 'all'):
            for d in sorted(glob.glob(os.path.join(V, 'benign', '*.diff'))):
                if not fnmatch.fnmatch(os.path.basename(d), ONLY):
                    continue
                files = [l[6:].strip() for l in open(d) if l.startswith('+++ b/')]
                if sh('git -C /repo apply ' + d).returncode != 0:
                    print('BENIGN %s: patch does not apply (stale)' % os.path.basename(d))
                    rc = max(rc, 2)
                    continue
                try:
                    for pid in props_for_files(files):
                        r = sh('./check %s --tier quick' % pid, cwd=V)
                        verdict = {0: 'ok', 1: 'FALSE ALARM', 2: 'undecided (brittle anchor)'}.get(r.returncode, '?')
                        print('BENIGN %-28s %s exit=%d %s' % (os.path.basename(d), pid, r.returncode, verdict))
                        if r.returncode != 0:
                            print('    ' + '\n    '.join((r.stdout + r.stderr).strip().split('\n')[-6:]))
                            rc = max(rc, 1)
                finally:
                    sh('git -C /repo checkout -- .')
        if mode in ('seeded', 'all'):
            for d in sorted(glob.glob(os.path.join(V, 'seeded', '*', 'patch.diff'))):
                name = os.path.basename(os.path.dirname(d))
                pid = name.split('-')[0]
                if not fnmatch.fnmatch(name, ONLY):
                    continue
                if sh('git -C /repo apply ' + d).returncode != 0:
                    print('SEEDED %s: patch does not apply (stale)' % name)
                    continue
                try:
                    r = sh('./check %s --tier quick' % pid, cwd=V)
                    verdict = {0: 'MISSED', 1: 'caught', 2: 'undecided'}.get(r.returncode, '?')
                    first = [l for l in r.stdout.split('\n') if l.startswith('VIOLATION')][:1]
                    print('SEEDED %-8s exit=%d %-9s %s' % (name, r.returncode, verdict, first[0][:160] if first else ''))
                finally:
                    sh('git -C /repo checkout -- .')
    finally:
        shutil.rmtree(os.path.join(V, 'evidence'), ignore_errors=True)
        shutil.copytree(bak, os.path.join(V, 'evidence'))
        shutil.rmtree(bak, ignore_errors=True)
    return rc


if __name__ == '__main__':
    sys.exit(main(sys.argv[1:]))
