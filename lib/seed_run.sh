#!/bin/bash
# seed_run.sh <seeded name> <property>... : apply the seeded patch to /repo, run the checks, undo.
NAME=$1; shift
cd /repo && git diff --quiet || { echo "/repo has uncommitted changes"; exit 2; }
rm -rf /tmp/evidence_backup; cp -r /verif/evidence /tmp/evidence_backup
git -C /repo apply /verif/seeded/$NAME/patch.diff || { echo "patch does not apply"; exit 2; }
for P in "$@"; do
  cd /verif && ./check $P --tier ${TIER:-quick} 2>/tmp/seed_run_err.log | grep "VIOLATION\|KNOWN" | head -5
  echo "$NAME $P exit=${PIPESTATUS[0]}"; grep "UNDECIDED" /tmp/seed_run_err.log | head -3
done
git -C /repo checkout -- .
rm -rf /verif/evidence; cp -r /tmp/evidence_backup /verif/evidence; rm -rf /tmp/evidence_backup
