#!/bin/sh
# Offline setup: create scratch dirs, check tools, warm the Kani and replay builds.
set -e
cd "$(dirname "$0")"
mkdir -p .cache build replays evidence
export CARGO_NET_OFFLINE=true
verus --version >/dev/null
cargo kani --version >/dev/null
# warm Verus (first run loads vstd) and the Kani build of each hooked crate; failures here are not fatal
python3 lib/extract.py units/varint build/varint.rs >/dev/null 2>&1 && (cd build && verus varint.rs >/dev/null 2>&1) || true
exit 0
