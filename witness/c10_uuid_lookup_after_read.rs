// Witness for a genuine defect (property C10): a snapshot read back from its wire form forgets which raw type
// id its UUID types have. Snap::build_from_raw inserts `raw_type_id` (which is TYPE_ID_EX == 0 in that branch)
// instead of the definition item's id, so item(TypeId::Uuid(..), id) returns None on the copy, and recycle()
// panics with DuplicateKey as soon as the snapshot has two UUID types.
// Copy to snapshot/tests/ and run: cargo test --offline -p libtw2-snapshot --test c10_uuid_lookup_after_read
use libtw2_snapshot::format::TypeId;
use libtw2_snapshot::snap::Builder;
use libtw2_snapshot::Snap;
use libtw2_warn::Ignore;
use uuid::Uuid;

#[test]
fn uuid_items_survive_serialization() {
    let u1: Uuid = "1a3fcc94-1e53-461e-912e-21200882024b".parse().unwrap();
    let u2: Uuid = "2b4fdd05-2f64-572f-a23f-32311993135c".parse().unwrap();
    let mut b = Builder::new();
    b.add_item(TypeId::Uuid(u1), 7, &[1, 2]).unwrap();
    b.add_item(TypeId::Uuid(u2), 8, &[3]).unwrap();
    b.add_item(TypeId::Ordinal(5), 9, &[4]).unwrap();
    let snap = b.finish();
    assert_eq!(snap.item(TypeId::Uuid(u1), 7), Some(&[1, 2][..]));

    let mut buf = Vec::new();
    let mut ints = [0i32; 64];
    let written = snap.write_to_ints(&mut buf, &mut ints).unwrap();
    let mut copy = Snap::empty();
    copy.read_from_ints(&mut Ignore, written).unwrap();

    assert_eq!(copy.item(TypeId::Uuid(u1), 7), Some(&[1, 2][..]), "lookup by UUID type on the copy");
    assert_eq!(copy.item(TypeId::Uuid(u2), 8), Some(&[3][..]));
    assert_eq!(copy.item(TypeId::Ordinal(5), 9), Some(&[4][..]));
    assert_eq!(copy.crc(), snap.crc());
    // the copy can be recycled into a builder that still knows its UUID types
    let mut b2 = copy.recycle();
    b2.add_item(TypeId::Uuid(u2), 1, &[9]).unwrap();
    let snap2 = b2.finish();
    assert_eq!(snap2.item(TypeId::Uuid(u2), 1), Some(&[9][..]));
}
