// Witness for a genuine defect (property C14, NOT repaired: the repair is in the code generator and changes public
// field types): snapshot objects are re-encoded by transmuting the #[repr(C)] struct to a slice of i32
// (`unsafe { slice::transmute(from_ref(self)) }`).  Members described as `boolean` are generated as Rust `bool`
// (one byte), so
//   * ddnet  DdnetSpectatorInfo { has_camera_info: bool, .. }: the first int consists of the bool and three padding
//     bytes -- reading them is undefined behaviour, in practice whatever was in memory;
//   * 0.7    DeClientInfo { local: bool, .., use_custom_colors: [bool; 6], .. }: the struct is 216 bytes, encode()
//     returns 54 ints for an object that the description (and decode) define as 58 ints; 0.7 PlayerInput and Damage
//     have bool members too.
// decode(canonical ints) followed by encode() therefore does not give the canonical ints back.
// Copy to tools/tests/ and run: cargo test --offline -p libtw2-tools --test c14_bool_obj_encode
// (libtw2-tools depends on libtw2-gamenet-teeworlds-0-7; the length mismatch is deterministic)
use libtw2_gamenet_teeworlds_0_7::snap_obj::TypeId;
use libtw2_gamenet_teeworlds_0_7::SnapObj;
use libtw2_packer::IntUnpacker;
use libtw2_warn::Ignore;

#[test]
fn de_client_info_reencodes_to_58_ints() {
    // local, team, name[4], clan[3], country, skin_part_names[6][6], use_custom_colors[6], skin_part_colors[6]
    let mut ints = vec![0i32; 58];
    ints[1] = 0; // team
    let obj = SnapObj::decode_obj(&mut Ignore, TypeId::Ordinal(13), &mut IntUnpacker::new(&ints)).unwrap();
    assert_eq!(obj.encode().len(), ints.len());
}
