// Witness for a genuine defect (property C18): parsing a server-info datagram can panic with a shift overflow.
//  (a) extended-info continuation ("iex+") with packet number 64: `1 << packet_no` on a u64;
//  (b) legacy 64-player info ("dtsf") whose client index reaches 64: `1 << j` on a u64.
// Copy to serverbrowse/tests/ and run: cargo test --offline -p libtw2-serverbrowse --test c18_shift_overflow
use libtw2_serverbrowse::protocol::Info664Response;
use libtw2_serverbrowse::protocol::Info6ExMoreResponse;

#[test]
fn packet_number_64_does_not_panic() {
    let _ = Info6ExMoreResponse(b"86536\064\0\0player4\0clan4\04\044\00\0\0").parse();
}

#[test]
fn client_index_64_does_not_panic() {
    // token, version, name, map, gametype, flags, num_players, max_players, num_clients, max_clients, offset = 64, one client
    let _ = Info664Response(b"1\0v\0n\0m\0g\00\01\064\01\064\064\0player\0clan\01\02\01\0").parse();
}
