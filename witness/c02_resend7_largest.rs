// Witness for a genuine defect of the 0.7 connection layer (property C02, also C04):
// Connection::send accepts vital chunks of up to MAX_PAYLOAD = 1390 bytes, but can_fit_chunk compares
// "packet bytes + chunk header + chunk" with MAX_PAYLOAD as well, so a vital chunk of 1388..=1390 bytes
// (3-byte header) never fits even an EMPTY packet and Connection::resend() loops forever.
// Copy to net/tests/ and run: cargo test --offline -p libtw2-net --test c02_resend7_largest
use libtw2_net::connection7::Callback;
use libtw2_net::connection7::Connection;
use libtw2_net::protocol7 as protocol;
use libtw2_net::Timestamp;
use libtw2_warn::Ignore;
use std::collections::VecDeque;

struct Cb {
    out: VecDeque<Vec<u8>>,
    now: u64,
    calls: u64,
}
impl Callback for Cb {
    type Error = ();
    fn secure_random(&mut self, buffer: &mut [u8]) {
        for b in buffer.iter_mut() {
            *b = 0x42;
        }
    }
    fn send(&mut self, data: &[u8]) -> Result<(), ()> {
        self.calls += 1;
        assert!(self.calls < 10_000, "call into the connection does not return (unbounded loop)");
        assert!(data.len() <= protocol::MAX_PACKETSIZE);
        self.out.push_back(data.to_owned());
        Ok(())
    }
    fn time(&mut self) -> Timestamp {
        self.calls += 1;
        assert!(self.calls < 10_000, "call into the connection does not return (unbounded loop)");
        Timestamp::from_usecs_since_epoch(self.now)
    }
}

fn pump(cb: &mut Cb, from: &mut Connection, to: &mut Connection) {
    let mut buffer = [0; protocol::MAX_PACKETSIZE];
    let _ = from;
    while let Some(p) = cb.out.pop_front() {
        let _ = to.feed(cb, &mut Ignore, &p, &mut buffer[..]).0.count();
        // replies are delivered to `from`
        let mut replies: Vec<Vec<u8>> = cb.out.drain(..).collect();
        for r in replies.drain(..) {
            let _ = from.feed(cb, &mut Ignore, &r, &mut buffer[..]).0.count();
        }
    }
}

#[test]
fn largest_vital_chunk_can_be_resent() {
    for len in [1387usize, 1388, 1389, 1390] {
        let mut cb = Cb { out: VecDeque::new(), now: 1, calls: 0 };
        let mut client = Connection::new();
        let mut server = Connection::new();
        client.connect(&mut cb).unwrap();
        pump(&mut cb, &mut client, &mut server);
        pump(&mut cb, &mut client, &mut server);
        let data = vec![0x55u8; len];
        client.send(&mut cb, &data, true).unwrap();
        client.flush(&mut cb).unwrap();
        cb.out.clear(); // the datagram is lost
        cb.now += 2_000_000; // resend timer (1 s) fires
        cb.calls = 0;
        client.tick(&mut cb).unwrap(); // must return
    }
}
