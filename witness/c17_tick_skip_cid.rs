// Witness for a genuine defect (property C17): doc/teehistorian.md says that a PLAYER_DIFF / PLAYER_NEW / PLAYER_OLD
// message implies a tick increment only if the last message of these kinds held an equal or higher cid "and there
// wasn't a TICK_SKIP message inbetween" (pseudo code: `implicit_cid = None` on TICK_SKIP).  The reader kept the last
// cid across a TICK_SKIP, so the stream
//     PLAYER_NEW(cid 2)  TICK_SKIP(0)  PLAYER_NEW(cid 1)  FINISH
// was reported as ticks 0, 1 (empty) and 2 with the second player in tick 2; the documentation puts it in tick 1.
// Found by the sampled harness sampled_teehistorian_fragmentation (its model of the documented tick numbers).
// Copy to tools/tests/ and run: cargo test --offline -p libtw2-tools --test c17_tick_skip_cid
use libtw2_teehistorian::Buffer;
use libtw2_teehistorian::Item;
use libtw2_teehistorian::Reader;
use std::io::Write;

#[test]
fn tick_skip_resets_the_implicit_cid() {
    let mut d: Vec<u8> = vec![
        0x69, 0x9d, 0xb1, 0x7b, 0x8e, 0xfb, 0x34, 0xff, 0xb1, 0xd8, 0xda, 0x6f, 0x60, 0xc1, 0x5d, 0xd1,
    ];
    d.extend_from_slice(
        br#"{"version":"2","game_uuid":"00000000-0000-0000-0000-000000000000","start_time":"2020-01-02T03:04:05+00:00","server_port":"8303","map_name":"dm1","map_size":"1","map_crc":"0badc0de","config":{}}"#,
    );
    d.push(0);
    // PLAYER_NEW(-3) cid=2 x=5 y=6 ; TICK_SKIP(-2) dt=0 ; PLAYER_NEW(-3) cid=1 x=7 y=8 ; FINISH(-1)
    // (variable-length ints: small non-negative n is the byte n, -1 = 0x40, -2 = 0x41, -3 = 0x42)
    d.extend_from_slice(&[0x42, 2, 5, 6, 0x41, 0, 0x42, 1, 7, 8, 0x40]);
    let path = std::env::temp_dir().join(format!("c17_tick_skip_cid_{}.teehistorian", std::process::id()));
    std::fs::File::create(&path).unwrap().write_all(&d).unwrap();
    let mut buffer = Buffer::new();
    let mut seen: Vec<String> = Vec::new();
    {
        let (_header, mut reader) = Reader::open(&path, &mut buffer).unwrap();
        while let Some(item) = reader.read(&mut buffer).unwrap() {
            match item {
                Item::TickStart(t) => seen.push(format!("start {}", t)),
                Item::TickEnd(t) => seen.push(format!("end {}", t)),
                Item::PlayerNew(p) => seen.push(format!("new {}", p.cid)),
                _ => seen.push("other".into()),
            }
        }
    }
    let _ = std::fs::remove_file(&path);
    assert_eq!(seen, ["start 0", "new 2", "end 0", "start 1", "new 1", "end 1"]);
}
