// Witness for a genuine defect (property C18), recorded as a KNOWN FINDING (not repaired, see DESIGN.md):
// PartialServerInfo::merge never ORs `other.received` into `self.received`, so a continuation part that is
// merged twice is appended twice: [p0, p1, p1] lists p1's clients twice and the info never becomes complete.
// The repository's own test parse_info_v6_ex depends on this behaviour (its two different continuation
// packets both carry packet number 1), so the one-line repair would break the existing suite.
// Copy to serverbrowse/tests/ and run: cargo test --offline -p libtw2-serverbrowse --test c18_merge_repeat
use libtw2_serverbrowse::protocol::Info6ExMoreResponse;
use libtw2_serverbrowse::protocol::Info6ExResponse;

#[test]
fn repeated_part_is_ignored() {
    let p0 = b"86536\0version\0name\0map\06277493\0627272\0gametype\035247\03\06\06\012\0\0player8\0clan8\08\088\01\0\0player3\0clan3\03\033\01\0\0player1\0clan1\01\011\00\0\0";
    let p1 = b"86536\01\0\0player4\0clan4\04\044\00\0\0player6\0clan6\06\066\00\0\0player5\0clan5\05\055\00\0\0";
    let mut acc = Info6ExResponse(p0).parse().unwrap();
    acc.merge(Info6ExMoreResponse(p1).parse().unwrap()).unwrap();
    // all 6 announced clients are there: complete
    assert_eq!(acc.get_info().map(|i| i.clients.len()), Some(6));
    // the same part again (duplicated datagram): nothing must change
    let _ = acc.merge(Info6ExMoreResponse(p1).parse().unwrap());
    assert_eq!(acc.get_info().map(|i| i.clients.len()), Some(6), "a repeated part changed the result");
}
