// Witness for a genuine defect (property C15): the high-level demo writer guards with `tick < last_tick`,
// so writing the SAME tick number twice passes the guard and panics in TickMarker::new (assert!(tick > p))
// instead of returning WriteError::TooLowTickNumber.
// Copy to tools/tests/ and run: cargo test --offline -p libtw2-tools --test c15_equal_tick
use libtw2_demo::ddnet::DemoWriter;
use libtw2_demo::ddnet::WriteError;
use libtw2_demo::DemoKind;
use libtw2_gamenet_ddnet::snap_obj::Flag;
use libtw2_gamenet_ddnet::Protocol as DDNet;
use libtw2_gamenet_ddnet::SnapObj;
use std::io::Cursor;

fn run() {
    let mut file = Vec::new();
    let mut writer = DemoWriter::<DDNet>::new(
        Cursor::new(&mut file),
        b"0.6 626fce9a778df4d4",
        b"dm1",
        None,
        0x1234_5678,
        DemoKind::Server,
        0,
        b"2024-01-01_00-00-00",
        b"",
    )
    .unwrap();
    let objs: Vec<(SnapObj, u16)> = vec![(Flag { x: 1, y: 2, team: 0 }.into(), 0)];
    writer.write_snap(5, objs.iter().map(|(o, id)| (o, *id))).unwrap();
    // same tick again: must be refused with an error, not a panic
    match writer.write_snap(5, objs.iter().map(|(o, id)| (o, *id))) {
        Err(WriteError::TooLowTickNumber) => {}
        Err(e) => panic!("wrong error: {}", e),
        Ok(()) => panic!("non-increasing tick accepted"),
    }
    // and the recording stays usable
    writer.write_snap(6, objs.iter().map(|(o, id)| (o, *id))).unwrap();
}

#[test]
fn equal_tick_is_refused_not_a_panic() {
    std::thread::Builder::new().stack_size(64 * 1024 * 1024).spawn(run).unwrap().join().unwrap();
}
