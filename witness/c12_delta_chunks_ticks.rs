// Witness for two genuine defects (property C12):
//  (a) snap::delta_chunks computes `tick - delta_tick` on i32 without wrapping: arbitrary tick / base-tick
//      values overflow (panic in debug builds) although the receiver inverts it with wrapping_sub;
//  (b) DeltaReceiver::snap compares the wire-relative `delta_tick` of a part with the stored absolute base
//      tick and raises DifferingAttributes for a perfectly consistent multi-part transfer.
// Copy to snapshot/tests/ and run: cargo test --offline -p libtw2-snapshot --test c12_delta_chunks_ticks
use libtw2_gamenet_snap::SnapMsg;
use libtw2_snapshot::receiver::Warning;
use libtw2_snapshot::snap::delta_chunks;
use libtw2_snapshot::DeltaReceiver;

fn transfer(tick: i32, base: i32, len: usize) {
    let data: Vec<u8> = (0..len).map(|i| i as u8).collect();
    let mut r = DeltaReceiver::new();
    let mut warnings: Vec<Warning> = Vec::new();
    let mut got = None;
    for m in delta_chunks(tick, base, &data, 0x1234) {
        let res = match m {
            SnapMsg::Snap(s) => r.snap(&mut warnings, s),
            SnapMsg::SnapSingle(s) => r.snap_single(&mut warnings, s),
            SnapMsg::SnapEmpty(s) => r.snap_empty(&mut warnings, s),
        }
        .unwrap();
        if let Some(d) = res {
            assert!(got.is_none());
            got = Some((d.tick, d.delta_tick, d.data_and_crc.map(|(d, c)| (d.to_vec(), c))));
        }
    }
    let (t, b, dc) = got.expect("transfer must complete");
    assert_eq!((t, b), (tick, base));
    if len > 0 {
        assert_eq!(dc, Some((data, 0x1234)));
    }
    assert!(warnings.is_empty(), "consistent transfer raised {:?}", warnings);
}

#[test]
fn extreme_ticks_do_not_panic() {
    transfer(i32::MIN, 1, 10);
    transfer(i32::MAX, -1, 0);
    transfer(-5, i32::MAX, 2000);
}

#[test]
fn consistent_multipart_transfer_raises_no_warning() {
    transfer(10, 3, 2000);
    transfer(100, 99, 900 * 3 + 1);
}
