// Witness for a genuine defect (property C13): Storage::reset() forgets the stored snapshots but keeps `delta_tick`.
// The sender then computes its next delta against the snapshot it has just added (the only one left), while delta_tick() still
// announces the old, acknowledged tick.  The receiver applies that "nothing changed" delta to ITS snapshot of the old tick; when
// the checksums coincide (the checksum is the plain sum of the data words) it accepts a snapshot that differs from the sender's.
// Copy to snapshot/tests/ and run: cargo test --offline -p libtw2-snapshot --test c13_reset_keeps_delta_tick
use libtw2_snapshot::format::TypeId;
use libtw2_snapshot::snap::Builder;
use libtw2_snapshot::Snap;
use libtw2_snapshot::Storage;
use libtw2_warn::Ignore;

fn snap_of(items: &[(u16, u16, &[i32])]) -> Snap {
    let mut b = Builder::new();
    for &(t, id, data) in items {
        b.add_item(TypeId::Ordinal(t), id, data).unwrap();
    }
    b.finish()
}
fn view(s: &Snap) -> Vec<(TypeId, u16, Vec<i32>)> {
    let mut v: Vec<_> = s.items().map(|i| (i.type_id, i.id, i.data.to_vec())).collect();
    v.sort_by_key(|x| (format!("{:?}", x.0), x.1));
    v
}

#[test]
fn sender_reset_then_snapshot() {
    let mut sender = Storage::new();
    let mut receiver = Storage::new();

    // tick 1: world A, transmitted as a delta against the empty snapshot, accepted and acknowledged
    let a_items: &[(u16, u16, &[i32])] = &[(1, 1, &[5])];
    let delta = sender.add_snap(1, snap_of(a_items)).clone();
    let crc_a = snap_of(a_items).crc();
    let got = receiver.add_delta(&mut Ignore, Some(crc_a), -1, 1, &delta).unwrap();
    assert_eq!(view(got), view(&snap_of(a_items)));
    sender.set_delta_tick(&mut Ignore, 1).unwrap();

    // the sender resets its storage (e.g. map change) and goes on
    sender.reset();

    // tick 2: world B; the sender announces delta_tick() as the base of the delta it hands out
    let b_items: &[(u16, u16, &[i32])] = &[(1, 2, &[5])];
    let b = snap_of(b_items);
    let crc_b = b.crc();
    let delta = sender.add_snap(2, snap_of(b_items)).clone();
    let base = sender.delta_tick().unwrap_or(-1);

    // whatever the receiver accepts for tick 2 must be B
    match receiver.add_delta(&mut Ignore, Some(crc_b), base, 2, &delta) {
        Ok(got) => assert_eq!(view(got), view(&b), "accepted snapshot differs from the one the sender built (base tick announced: {})", base),
        Err(_) => {}
    }
}
