// Witness for a genuine defect (properties C20, C04): Net::reject(pid, reason) on a pending peer always panicked --
// it calls Connection::disconnect on an unconnected connection, whose send_control hit `unreachable!()` for
// State::Unconnected.  After the fix a token-less Close is sent, the peer is gone, and the rejected client is told.
// Copy to net/tests/ and run: cargo test --offline -p libtw2-net --test c20_reject_pending_peer
use libtw2_net::net::Callback;
use libtw2_net::net::ChunkOrEvent;
use libtw2_net::Net;
use libtw2_net::Timestamp;
use libtw2_warn::Ignore;

struct Cb(Vec<(u8, Vec<u8>)>);
impl Callback<u8> for Cb {
    type Error = ();
    fn secure_random(&mut self, b: &mut [u8]) { for x in b { *x = 7; } }
    fn send(&mut self, addr: u8, data: &[u8]) -> Result<(), ()> { self.0.push((addr, data.to_vec())); Ok(()) }
    fn time(&mut self) -> Timestamp { Timestamp::from_secs_since_epoch(0) }
}
#[test]
fn reject_a_pending_peer() {
    let mut net: Net<u8> = Net::server();
    let mut cb = Cb(Vec::new());
    let mut buf = [0u8; 2048];
    let pid = {
        let (mut pkt, r) = net.feed(&mut cb, &mut Ignore, 1u8, b"\x10\x00\x00\x01TKEN\xff\xff\xff\xff", &mut buf[..]);
        r.unwrap();
        match pkt.next() { Some(ChunkOrEvent::Connect(pid)) => pid, e => panic!("{:?}", e) }
    };
    net.reject(&mut cb, pid, b"no").unwrap();
    // the peer is gone
    let mut probe = ChunkOrEvent::Chunk(libtw2_net::net::Chunk { pid, vital: false, data: b"" });
    assert!(!net.is_receive_chunk_still_valid(&mut probe));
}

#[test]
fn rejected_client_is_told() {
    use libtw2_net::connection;
    use libtw2_net::Connection;
    struct CCb(Vec<Vec<u8>>);
    impl connection::Callback for CCb {
        type Error = ();
        fn secure_random(&mut self, b: &mut [u8]) { for x in b { *x = 9; } }
        fn send(&mut self, data: &[u8]) -> Result<(), ()> { self.0.push(data.to_vec()); Ok(()) }
        fn time(&mut self) -> Timestamp { Timestamp::from_secs_since_epoch(0) }
    }
    let mut client = Connection::new();
    let mut ccb = CCb(Vec::new());
    client.connect(&mut ccb).unwrap();
    let connect = ccb.0.pop().unwrap();
    let mut net: Net<u8> = Net::server();
    let mut cb = Cb(Vec::new());
    let mut buf = [0u8; 2048];
    let pid = {
        let (mut pkt, r) = net.feed(&mut cb, &mut Ignore, 1u8, &connect, &mut buf[..]);
        r.unwrap();
        match pkt.next() { Some(ChunkOrEvent::Connect(pid)) => pid, e => panic!("{:?}", e) }
    };
    net.reject(&mut cb, pid, b"full").unwrap();
    assert_eq!(cb.0.len(), 1);
    let (addr, close) = cb.0.pop().unwrap();
    assert_eq!(addr, 1);
    let mut buf2 = [0u8; 2048];
    let (pkt, r) = client.feed(&mut ccb, &mut Ignore, &close, &mut buf2[..]);
    r.unwrap();
    let evs: Vec<_> = pkt.collect();
    assert_eq!(evs, vec![connection::ReceiveChunk::Disconnect(b"full")]);
}
