// Witness for a genuine defect (property C11): applying an accepted delta to an accepted snapshot can panic.
// An update for an item that exists in the base snapshot with a DIFFERENT size reaches apply_item_delta with
// delta.len() != out.len() and trips its assert!, instead of returning Error::DeltaDifferingSizes.
// Copy to snapshot/tests/ and run: cargo test --offline -p libtw2-snapshot --test c11_delta_size_mismatch
use libtw2_packer::IntUnpacker;
use libtw2_snapshot::format::TypeId;
use libtw2_snapshot::snap::Builder;
use libtw2_snapshot::snap::Error;
use libtw2_snapshot::Delta;
use libtw2_snapshot::Snap;
use libtw2_warn::Ignore;

#[test]
fn update_with_other_size_is_an_error_not_a_panic() {
    let mut b = Builder::new();
    b.add_item(TypeId::Ordinal(1), 0, &[7]).unwrap();
    let base = b.finish();
    // delta: 0 deletions, 1 update, padding; update of (type 1, id 0) with explicit size 2
    let ints = [0, 1, 0, 1, 0, 2, 5, 6];
    let mut delta = Delta::new();
    delta.read_from_ints(&mut Ignore, |_| None, &mut IntUnpacker::new(&ints)).unwrap();
    let mut out = Snap::empty();
    let r = out.read_with_delta(&mut Ignore, &base, &delta);
    assert_eq!(r, Err(Error::DeltaDifferingSizes));
}
