// Witness for two genuine defects of the 0.6 connection layer (property C04):
//   (a) Connection::send accepts payloads of 1024..=1390 bytes but write_chunk_impl asserts len < 1024
//   (b) 256 chunks queued without a flush overflow the u8 chunk counter
// Copy to net/tests/ and run: cargo test --offline -p libtw2-net --test c04_send_limits
use libtw2_net::connection::Callback;
use libtw2_net::connection::Connection;
use libtw2_net::protocol;
use libtw2_net::Timestamp;
use libtw2_warn::Ignore;
use std::collections::VecDeque;

struct Cb(VecDeque<Vec<u8>>);
impl Callback for Cb {
    type Error = ();
    fn secure_random(&mut self, buffer: &mut [u8]) {
        for b in buffer.iter_mut() {
            *b = 0x42;
        }
    }
    fn send(&mut self, data: &[u8]) -> Result<(), ()> {
        self.0.push_back(data.to_owned());
        Ok(())
    }
    fn time(&mut self) -> Timestamp {
        Timestamp::from_secs_since_epoch(0)
    }
}

fn online_pair(cb: &mut Cb) -> (Connection, Connection) {
    let mut buffer = [0; protocol::MAX_PACKETSIZE];
    let mut client = Connection::new();
    let mut server = Connection::new();
    client.connect(cb).unwrap();
    let p = cb.0.pop_front().unwrap();
    let _ = server.feed(cb, &mut Ignore, &p, &mut buffer[..]).0.count();
    let p = cb.0.pop_front().unwrap();
    let _ = client.feed(cb, &mut Ignore, &p, &mut buffer[..]).0.count();
    let p = cb.0.pop_front().unwrap();
    let _ = server.feed(cb, &mut Ignore, &p, &mut buffer[..]).0.count();
    (client, server)
}

#[test]
fn send_1024_bytes_is_refused_or_sent_not_a_panic() {
    let mut cb = Cb(VecDeque::new());
    let (mut client, _server) = online_pair(&mut cb);
    for len in [1023usize, 1024, 1200, 1390, 1391] {
        let data = vec![0u8; len];
        let _ = client.send(&mut cb, &data, false); // Ok or Err(TooLongData), never a panic
        client.flush(&mut cb).unwrap();
    }
}

#[test]
fn many_small_chunks_without_flush_do_not_panic() {
    let mut cb = Cb(VecDeque::new());
    let (mut client, _server) = online_pair(&mut cb);
    let mut buffer = [0; protocol::MAX_PACKETSIZE];
    for _ in 0..300 {
        client.send(&mut cb, b"", false).unwrap();
    }
    client.flush(&mut cb).unwrap();
    // everything handed to the callback parses, and the announced chunk count is the real one
    while let Some(p) = cb.0.pop_front() {
        let mut w: Vec<protocol::Warning> = Vec::new();
        match protocol::Packet::read(&mut w, &p, Some(true), &mut buffer[..]).unwrap() {
            protocol::Packet::Connected(c) => {
                if let protocol::ConnectedPacketType::Chunks(_, n, data) = c.type_ {
                    let it = protocol::ChunksIter::new(data, n);
                    assert_eq!(it.count(), n as usize);
                }
            }
            _ => {}
        }
        assert!(w.is_empty(), "{:?}", w);
    }
}
