// Witness for a genuine defect (property C15): the demo writer accepted a negative `length` header field
// (Writer::new(.., length = -1, ..) returned Ok and wrote the file), but the demo reader refuses every file whose
// header has length < 0 (binrw assert `length >= 0` in demo/src/format.rs): a recording accepted by the writer could
// not be played back.  Found by the sampled contract harness sampled_demo_raw_roundtrip_heavy.
// After the fix the writer refuses the header with an error.
// Copy to tools/tests/ and run: cargo test --offline -p libtw2-tools --test c15_negative_length
use libtw2_demo::DemoKind;
use libtw2_demo::Reader;
use libtw2_demo::Writer;
use std::io::Cursor;

#[test]
fn negative_length_is_refused_or_readable() {
    let mut file = Vec::new();
    let accepted = {
        let w = Writer::new(
            Cursor::new(&mut file),
            b"0.6 626fce9a778df4d4",
            b"dm1",
            None,
            0x1234_5678,
            DemoKind::Server,
            -1,
            b"2024-01-01_00-00-00",
            b"",
        );
        w.is_ok()
    };
    if accepted {
        let mut warnings: Vec<libtw2_demo::Warning> = Vec::new();
        let r = Reader::new(Cursor::new(&file[..]), &mut warnings);
        assert!(r.is_ok(), "the writer accepted length = -1 but the reader refuses the file");
    }
}
