// Witness for two genuine defects of datafile::raw::Reader::check (property C16): opening a crafted file panics.
//  (a) item sizes are not required to be multiples of 4; the next item's offset is then unaligned and
//      item_header() hits the assert in relative_size_of_mult::<u8, i32>;
//  (b) `num_items - t.start` is computed before t.start is validated: start = i32::MIN overflows.
// Copy to datafile/tests/ and run: cargo test --offline -p libtw2-datafile --test c16_reader_check
use std::fs;
use std::panic;
use std::path::PathBuf;

fn push(out: &mut Vec<u8>, v: i32) {
    out.extend_from_slice(&v.to_le_bytes());
}

/// version 3 file with explicit tables
fn file(types: &[(i32, i32, i32)], item_offsets: &[i32], items_raw: &[i32]) -> Vec<u8> {
    let size_items = items_raw.len() * 4;
    let total = 36 + 12 * types.len() + 4 * item_offsets.len() + size_items;
    let size = total as i32 - 16;
    let mut out = Vec::new();
    out.extend_from_slice(b"DATA");
    push(&mut out, 3);
    push(&mut out, size);
    push(&mut out, size); // swaplen (no data)
    push(&mut out, types.len() as i32);
    push(&mut out, item_offsets.len() as i32);
    push(&mut out, 0);
    push(&mut out, size_items as i32);
    push(&mut out, 0);
    for &(t, s, n) in types {
        push(&mut out, t);
        push(&mut out, s);
        push(&mut out, n);
    }
    for &o in item_offsets {
        push(&mut out, o);
    }
    for &w in items_raw {
        push(&mut out, w);
    }
    assert_eq!(out.len(), total);
    out
}

fn open_must_not_panic(name: &str, bytes: &[u8]) {
    let mut path: PathBuf = std::env::temp_dir();
    path.push(format!("c16_witness_{}_{}.datafile", std::process::id(), name));
    fs::write(&path, bytes).unwrap();
    let result = panic::catch_unwind(|| libtw2_datafile::Reader::open(&path).map(|_| ()));
    let _ = fs::remove_file(&path);
    assert!(result.is_ok(), "Reader::open panicked on {}", name);
}

#[test]
fn unaligned_item_size_is_an_error_not_a_panic() {
    // item 0: header at 0, size 1 (not a multiple of 4) => item 1 would start at byte offset 9
    let key = (1 << 16) | 0;
    let items_raw = [key, 1, 0, 0, 0]; // 20 bytes: 8 header + 1 body, then 8 header of item 1 starting at 9 .. 17 <= 20
    open_must_not_panic("unaligned", &file(&[(1, 0, 2)], &[0, 9], &items_raw));
}

#[test]
fn huge_negative_type_start_is_an_error_not_a_panic() {
    let key = (1 << 16) | 0;
    open_must_not_panic("start_min", &file(&[(1, i32::MIN, 1)], &[0], &[key, 0]));
}
