// Witness for a genuine defect (properties C10 / C11): a snapshot accepted from the wire whose type registry (items of type 0)
// holds ids outside the extended range makes the recycled builder panic.
//   (a) registry item with id 5:            recycle() sets next_type_id = 6, the next new UUID type hits
//                                           assert!(OFFSET_EXTENDED_TYPE_ID <= raw_type_id) in Builder::add_item
//   (b) registry items 0x40ff, 0x41ff, ...: the "keep 256 free" scan walks up to >= 0x8000 (assert!(raw_type_id < 0x8000)),
//                                           and with enough of them `next_type_id + 256` overflows u16 inside recycle()
// Copy to snapshot/tests/ and run: cargo test --offline -p libtw2-snapshot --test c10_recycle_hostile_registry
use libtw2_snapshot::format::TypeId;
use libtw2_snapshot::Snap;
use libtw2_warn::Ignore;
use uuid::Uuid;

// wire form (ints): data_size (bytes), num_items, offsets (bytes)..., then per item: key, data...
fn registry_snapshot(ids: &[u16]) -> Vec<i32> {
    let n = ids.len() as i32;
    let mut ints = vec![n * 5 * 4, n];
    for i in 0..n {
        ints.push(i * 5 * 4);
    }
    for (i, &id) in ids.iter().enumerate() {
        ints.push(id as i32); // type 0 (TYPE_ID_EX), id
        // four words of UUID data, different for every item
        ints.extend_from_slice(&[0x1a3fcc94, 0x1e53461e, 0x112e2120, i as i32]);
    }
    ints
}

fn recycle_and_add(ids: &[u16]) {
    let mut snap = Snap::empty();
    snap.read_from_ints(&mut Ignore, &registry_snapshot(ids))
        .expect("the reader accepts this snapshot");
    let mut builder = snap.recycle();
    let new_type: Uuid = "2b4fdd05-2f64-572f-a23f-32311993135c".parse().unwrap();
    // a value or an error, never a panic
    let _ = builder.add_item(TypeId::Uuid(new_type), 1, &[9]);
    let again = builder.finish();
    let _ = again.crc();
}

#[test]
fn registry_id_below_extended_range() {
    recycle_and_add(&[5]);
}

#[test]
fn registry_chain_up_to_0x8000() {
    let ids: Vec<u16> = (0..64).map(|i| 0x40ff + 0x100 * i).collect();
    recycle_and_add(&ids);
}

#[test]
fn registry_chain_up_to_u16_max() {
    let ids: Vec<u16> = (0..191).map(|i| 0x40ff + 0x100 * i).collect();
    recycle_and_add(&ids);
}
