// Contract harnesses for snapshot/src/format.rs (C09, C10): item keys and UUID item data.
use super::*;

#[path = "/verif/kani/draw.rs"]
mod draw;

/// contract key / key_to_raw_type_id / key_to_id, all u16 x u16:
///   inverse of each other; as an unsigned 32-bit number the key orders by (type, id)
///   (the wire order), as a signed number types >= 0x8000 sort first.
pub fn contract_key(t: u16, id: u16, t2: u16, id2: u16) {
    let k = key(t, id);
    assert!(key_to_raw_type_id(k) == t);
    assert!(key_to_id(k) == id);
    let k2 = key(t2, id2);
    assert!((k == k2) == (t == t2 && id == id2));
    assert!(((k as u32) < (k2 as u32)) == ((t, id) < (t2, id2)));
    assert!((k < 0) == (t >= 0x8000));
}
/// every i32 is the key of exactly its (type, id) pair
pub fn contract_key_inverse(k: i32) {
    assert!(key(key_to_raw_type_id(k), key_to_id(k)) == k);
}

pub struct Count(pub u32);
impl Warn<Warning> for Count {
    fn warn(&mut self, _: Warning) {
        self.0 += 1;
    }
}

/// contract uuid_to_item_data / item_data_to_uuid: inverse for all 128-bit values, no warning;
/// item_data_to_uuid is None for fewer than 4 ints, warns (and ignores the excess) for more than 4.
pub fn contract_uuid_roundtrip(bytes: [u8; 16], extra: i32) {
    let uuid = Uuid::from_bytes(bytes);
    let data = uuid_to_item_data(uuid);
    let mut w = Count(0);
    let back = item_data_to_uuid(&mut w, &data);
    assert!(back == Some(uuid));
    assert!(w.0 == 0);
    assert!(item_data_to_uuid(&mut w, &data[..3]).is_none());
    let five = [data[0], data[1], data[2], data[3], extra];
    let mut w2 = Count(0);
    assert!(item_data_to_uuid(&mut w2, &five) == Some(uuid));
    assert!(w2.0 == 1);
    // big-endian layout prescribed by doc/snapshot.md
    assert!(data[0] == i32::from_be_bytes([bytes[0], bytes[1], bytes[2], bytes[3]]));
    assert!(data[3] == i32::from_be_bytes([bytes[12], bytes[13], bytes[14], bytes[15]]));
}

// ---- sampled contract: multi-part snapshot transfer (C12) ---------------------------------------------------------
// delta_chunks splits, DeltaReceiver reassembles: for every delivery order with duplicates, and with an unfinished
// transfer superseded by a newer one, a complete transfer is handed out exactly once, with exactly the bytes, tick,
// base tick and crc that were split, without warning; parts of finished or superseded ticks are refused.
#[cfg(not(kani))]
pub mod sampled_parts {
    use crate::receiver::DeltaReceiver;
    use crate::receiver::Error;
    use crate::snap::delta_chunks;
    use libtw2_gamenet_snap::SnapMsg;

    pub struct Transfer {
        pub tick: i32,
        pub base: i32,
        pub data: Vec<u8>,
        pub crc: i32,
        /// delivery order as indices into the parts (taken modulo the number of parts; repeats = duplicates)
        pub order: Vec<usize>,
        /// deliver every part (after `order`) or abandon the transfer
        pub complete: bool,
    }
    pub fn contract_parts_transfer(transfers: &[Transfer]) {
        let mut r = DeltaReceiver::new();
        let mut warnings: Vec<crate::receiver::Warning> = Vec::new();
        for t in transfers {
            let parts: Vec<SnapMsg> = delta_chunks(t.tick, t.base, &t.data, t.crc).collect();
            assert!(!parts.is_empty());
            // what was split covers the data exactly, in order
            let mut joined: Vec<u8> = Vec::new();
            for p in &parts {
                match p {
                    SnapMsg::Snap(s) => {
                        assert!(s.data.len() <= 900 && !s.data.is_empty(), "part size");
                        joined.extend_from_slice(s.data)
                    }
                    SnapMsg::SnapSingle(s) => joined.extend_from_slice(s.data),
                    SnapMsg::SnapEmpty(_) => {}
                }
            }
            assert!(joined == t.data, "the parts do not add up to the data");
            let mut order: Vec<usize> = t.order.iter().map(|i| i % parts.len()).collect();
            if t.complete {
                for i in 0..parts.len() {
                    order.push(i);
                }
            } else if parts.len() > 1 {
                // abandon: make sure at least one part stays undelivered
                let keep_out = order.first().copied().unwrap_or(0);
                order.retain(|&i| i != keep_out);
            } else {
                continue;
            }
            let mut seen = vec![false; parts.len()];
            let mut done = false;
            for &i in &order {
                let before = seen.iter().filter(|&&b| b).count();
                let res = match parts[i] {
                    SnapMsg::Snap(s) => r.snap(&mut warnings, s).map(|o| o.map(|d| (d.tick, d.delta_tick, d.data_and_crc.map(|(d, c)| (d.to_vec(), c))))),
                    SnapMsg::SnapSingle(s) => r.snap_single(&mut warnings, s).map(|o| o.map(|d| (d.tick, d.delta_tick, d.data_and_crc.map(|(d, c)| (d.to_vec(), c))))),
                    SnapMsg::SnapEmpty(s) => r.snap_empty(&mut warnings, s).map(|o| o.map(|d| (d.tick, d.delta_tick, d.data_and_crc.map(|(d, c)| (d.to_vec(), c))))),
                };
                if done {
                    assert!(matches!(res, Err(Error::OldDelta)), "a part of a finished transfer must be refused as old");
                    continue;
                }
                // C12: a message for a tick older than the newest one seen never completes, overwrites or corrupts a transfer --
                // also when it is newer than the last completed tick and arrives in the middle of a transfer
                if t.tick > i32::MIN {
                    let stale = libtw2_gamenet_snap::SnapSingle { tick: t.tick - 1, delta_tick: 0, crc: 0, data: &[1, 2, 3] };
                    let sr = r.snap_single(&mut warnings, stale).map(|o| o.is_some());
                    assert!(matches!(sr, Err(Error::OldDelta)), "a message for an older tick was accepted during a transfer");
                }
                if seen[i] {
                    assert!(matches!(res, Err(Error::DuplicatePart)), "a repeated part must be refused as duplicate");
                    continue;
                }
                seen[i] = true;
                if before + 1 < parts.len() {
                    assert!(matches!(res, Ok(None)), "an incomplete transfer must not be handed out");
                } else {
                    match res {
                        Ok(Some((tick, base, dc))) => {
                            assert!(tick == t.tick, "tick");
                            assert!(base == t.base, "base tick");
                            if t.data.is_empty() {
                                assert!(dc.is_none());
                            } else {
                                let (d, c) = dc.expect("data expected");
                                assert!(c == t.crc, "crc");
                                assert!(d == t.data, "reassembled bytes differ from the bytes that were split");
                            }
                        }
                        other => panic!("complete transfer not handed out: {:?}", other.map(|o| o.is_some())),
                    }
                    done = true;
                }
            }
            assert!(done == t.complete);
        }
        assert!(warnings.is_empty(), "warnings on consistent transfers");
    }
}

// ---- sampled contract: the readers are total (C11) -----------------------------------------------------------------
// any int sequence read as a snapshot / as a delta, and any accepted delta applied to any accepted snapshot, returns
// a value or an error, never panics; what is accepted respects the limits and can be written again.
#[cfg(not(kani))]
pub mod sampled_total {
    use crate::snap::Delta;
    use crate::snap::Snap;
    use crate::snap::MAX_SNAPSHOT_ITEMS;
    use libtw2_packer::IntUnpacker;

    /// largest single allocation request the parsers may make for an input of `n` ints: "a small multiple of the
    /// input" (C11) -- Vec doubling and BTreeMap nodes stay far below this; an allocation sized by a length field
    /// of the input does not
    pub fn alloc_limit(n_ints: usize) -> usize {
        16 * 1024 + 64 * 4 * n_ints
    }
    pub fn contract_readers_total(snap_ints: &[i32], delta_ints: &[i32], agreed: bool) {
        let mut w: Vec<crate::format::Warning> = Vec::new();
        let mut a = Snap::empty();
        let (ok, req) = super::alloc_watch::measure(|| a.read_from_ints(&mut w, snap_ints).is_ok());
        assert!(req <= alloc_limit(snap_ints.len()), "Snap::read_from_ints requested {} bytes at once for {} input ints", req, snap_ints.len());
        if !ok {
            a = Snap::empty();
        }
        assert!(a.items().count() <= MAX_SNAPSHOT_ITEMS);
        let _ = a.crc();
        let mut keys = Vec::new();
        let mut out = vec![0i32; 17000];
        let n = a.write_to_ints(&mut keys, &mut out).expect("an accepted snapshot can be written").len();
        assert!(n * 4 <= 65536, "accepted snapshot larger than the limit");
        let mut d = Delta::new();
        let mut p = IntUnpacker::new(delta_ints);
        let size = move |t: u16| if agreed && t < 8 { Some((t % 4) as u32) } else { None };
        let (dok, req) = super::alloc_watch::measure(|| d.read_from_ints(&mut w, size, &mut p).is_ok());
        assert!(req <= alloc_limit(delta_ints.len()), "Delta::read_from_ints requested {} bytes at once for {} input ints", req, delta_ints.len());
        if dok {
            let mut b = Snap::empty();
            let (pok, req) = super::alloc_watch::measure(|| b.read_with_delta(&mut w, &a, &d).is_ok());
            assert!(req <= alloc_limit(snap_ints.len() + delta_ints.len()), "Snap::read_with_delta requested {} bytes at once for {} input ints", req, snap_ints.len() + delta_ints.len());
            if pok {
                assert!(b.items().count() <= MAX_SNAPSHOT_ITEMS);
                let m = b.write_to_ints(&mut keys, &mut out).expect("a patched snapshot can be written").len();
                assert!(m * 4 <= 65536);
            }
        }
    }
}

// ---- allocation watch (C11: "never allocates beyond a small multiple of the input") --------------------------------
// A counting global allocator for the test binary of this crate under --cfg libtw2_verif (never under Kani): records,
// per thread and only inside measure(), the largest single request.  Requests are passed on to the system allocator
// unchanged (a huge untouched reservation succeeds under overcommit, so a violation is reported, not a crash).
#[cfg(not(kani))]
pub mod alloc_watch {
    use std::alloc::GlobalAlloc;
    use std::alloc::Layout;
    use std::alloc::System;
    use std::cell::Cell;
    thread_local! {
        static ON: Cell<bool> = const { Cell::new(false) };
        static MAX_REQ: Cell<usize> = const { Cell::new(0) };
    }
    fn note(n: usize) {
        let _ = ON.try_with(|on| {
            if on.get() {
                let _ = MAX_REQ.try_with(|m| m.set(m.get().max(n)));
            }
        });
    }
    pub struct Watch;
    unsafe impl GlobalAlloc for Watch {
        unsafe fn alloc(&self, l: Layout) -> *mut u8 {
            note(l.size());
            System.alloc(l)
        }
        unsafe fn alloc_zeroed(&self, l: Layout) -> *mut u8 {
            note(l.size());
            System.alloc_zeroed(l)
        }
        unsafe fn dealloc(&self, p: *mut u8, l: Layout) {
            System.dealloc(p, l)
        }
        unsafe fn realloc(&self, p: *mut u8, l: Layout, new_size: usize) -> *mut u8 {
            note(new_size);
            System.realloc(p, l, new_size)
        }
    }
    #[global_allocator]
    static WATCH: Watch = Watch;
    /// runs `f` and returns the largest single allocation request made by this thread meanwhile
    pub fn measure<R>(f: impl FnOnce() -> R) -> (R, usize) {
        MAX_REQ.with(|m| m.set(0));
        ON.with(|o| o.set(true));
        let r = f();
        ON.with(|o| o.set(false));
        (r, MAX_REQ.with(|m| m.get()))
    }
}

// ---- sampled contract: sender storage <-> receiving manager over a lossy channel (C13) ------------------------------
// The sender follows the storage API exactly as server/src/main.rs does (new_builder, delta_tick, add_snap,
// delta_chunks; set_delta_tick on every acknowledgement that arrives).  Whenever the receiver accepts a snapshot for a
// tick it equals, item for item, the snapshot the sender built for that tick; otherwise it reports an error and its
// acknowledged tick does not move to that tick.  Neither side panics.
#[cfg(not(kani))]
pub mod sampled_party {
    use super::sampled::{view, Item};
    use crate::snap::delta_chunks;
    use crate::Manager;
    use crate::Storage;
    use libtw2_gamenet_snap::SnapMsg;
    use libtw2_packer::with_packer;

    #[derive(Clone, Debug)]
    pub struct Step {
        pub items: Vec<Item>,
        /// how the parts of this tick's delta travel: indices into the parts (mod n); missing = lost, repeated = dup
        pub deliveries: Vec<usize>,
        /// deliver every part once, in order, before `deliveries`
        pub clean: bool,
        /// acknowledgement handling after this step: 0 none, 1 current ack_tick, 2 an older ack delivered late
        pub ack: usize,
        pub gap: i32,
        /// the world did not change since the snapshot the sender currently deltas against: the sender then transmits
        /// "nothing changed" (SnapEmpty: delta_chunks over empty data) like the reference server does
        pub repeat: bool,
    }
    pub fn contract_two_party(steps: &[Step], agreed: bool) {
        let mut sender = Storage::new();
        let mut receiver = Manager::new();
        let mut built: Vec<(i32, Vec<Item>)> = Vec::new();
        let mut added: Vec<(i32, Vec<Item>)> = Vec::new();
        let mut old_acks: Vec<i32> = Vec::new();
        let mut tick: i32 = 10;
        let mut warnings: Vec<crate::manager::Warning> = Vec::new();
        struct W;
        impl libtw2_warn::Warn<crate::storage::WeirdNegativeDeltaTick> for W {
            fn warn(&mut self, _: crate::storage::WeirdNegativeDeltaTick) {}
        }
        for st in steps {
            tick += st.gap.max(1);
            // sender builds this tick's snapshot
            let mut b = sender.new_builder();
            let delta_tick = sender.delta_tick().unwrap_or(-1);
            let mut accepted: Vec<Item> = Vec::new();
            // (in the order in which they were added then: the raw ids of UUID types depend on it)
            let base_items: Option<Vec<Item>> = if delta_tick == -1 { Some(Vec::new()) } else { added.iter().find(|(t, _)| *t == delta_tick).map(|(_, i)| i.clone()) };
            let step_items: Vec<Item> = match (&base_items, st.repeat) {
                (Some(b), true) => b.clone(),
                _ => st.items.clone(),
            };
            for (t, id, data) in &step_items {
                if b.add_item(*t, *id, data).is_ok() {
                    accepted.push((*t, *id, data.clone()));
                }
            }
            added.push((tick, accepted.clone()));
            accepted.sort();
            let snap = b.finish();
            assert!(view(&snap) == accepted);
            let crc = snap.crc();
            built.push((tick, accepted));
            let mut bytes: Vec<u8> = Vec::with_capacity(5 * 40000);
            {
                let delta = sender.add_snap(tick, snap);
                with_packer(&mut bytes, |p| delta.write(super::sampled::obj_size(agreed), p).map(|_| ())).unwrap();
            }
            // "nothing changed" is what the delta says (no deletions, no updates: three zero ints), not what the views say
            let unchanged = st.repeat && bytes == [0u8, 0, 0];
            if unchanged {
                bytes.clear();
            }
            let parts: Vec<SnapMsg> = delta_chunks(tick, delta_tick, &bytes, crc).collect();
            let mut order: Vec<usize> = Vec::new();
            if st.clean {
                order.extend(0..parts.len());
            }
            order.extend(st.deliveries.iter().map(|i| i % parts.len()));
            for &i in &order {
                let before = receiver.ack_tick();
                let res = match parts[i] {
                    SnapMsg::Snap(m) => receiver.snap(&mut warnings, super::sampled::obj_size(agreed), m).map(|o| o.map(view)),
                    SnapMsg::SnapSingle(m) => receiver.snap_single(&mut warnings, super::sampled::obj_size(agreed), m).map(|o| o.map(view)),
                    SnapMsg::SnapEmpty(m) => receiver.snap_empty(&mut warnings, super::sampled::obj_size(agreed), m).map(|o| o.map(view)),
                };
                match res {
                    Ok(Some(got)) => {
                        let want = &built.iter().find(|(t, _)| *t == tick).unwrap().1;
                        assert!(&got == want, "accepted snapshot differs from the one the sender built for that tick (tick {}, delta base {}, unchanged-world message: {}; got {:?}, want {:?})", tick, delta_tick, unchanged, &got[..got.len().min(4)], &want[..want.len().min(4)]);
                        assert!(receiver.ack_tick() == Some(tick), "accepted but not acknowledged");
                    }
                    Ok(None) => assert!(receiver.ack_tick() == before, "acknowledged tick moved without an accepted snapshot"),
                    Err(_) => {
                        let after = receiver.ack_tick();
                        assert!(after == before || after.is_none(), "acknowledged tick advanced on an error");
                    }
                }
            }
            match st.ack {
                1 => {
                    if let Some(a) = receiver.ack_tick() {
                        old_acks.push(a);
                        let _ = sender.set_delta_tick(&mut W, a);
                    } else {
                        let _ = sender.set_delta_tick(&mut W, -1);
                    }
                }
                2 => {
                    if !old_acks.is_empty() {
                        // an acknowledgement that was delayed: may refer to a snapshot the sender already dropped
                        let a = old_acks[0];
                        let _ = sender.set_delta_tick(&mut W, a);
                    }
                }
                _ => {}
            }
        }
    }
}

pub mod proofs {
    use super::draw;
    use super::draw::harness;
    use super::*;
    harness!(complete_snap_key, {
        let t = draw::u16();
        let id = draw::u16();
        let t2 = draw::u16();
        let id2 = draw::u16();
        draw::reached();
        contract_key(t, id, t2, id2);
    });
    harness!(complete_snap_key_inverse, {
        let k = draw::i32();
        draw::reached();
        contract_key_inverse(k);
    });
    harness!(complete_uuid_roundtrip, unwind = 18, {
        let b = draw::bytes::<16>();
        let e = draw::i32();
        draw::reached();
        contract_uuid_roundtrip(b, e);
    });
    // ---- sampled (native PRNG driver only; never counted as proved) ----
    #[cfg(not(kani))]
    harness!(sampled_snap_wire_roundtrip, unwind = 1, {
        let items = super::sampled_proofs_support::draw_items(8);
        draw::reached();
        super::sampled::contract_wire_roundtrip(&items);
    });
    #[cfg(not(kani))]
    harness!(sampled_snap_delta_roundtrip, unwind = 1, {
        let a = super::sampled_proofs_support::draw_items(6);
        let b = super::sampled_proofs_support::draw_items(6);
        let agreed = draw::bool();
        draw::reached();
        super::sampled::contract_delta_roundtrip(&a, &b, agreed);
    });
    // the builder close to the 64 KiB limit: filler items, then UUID-typed and ordinal items of drawn lengths; refused
    // items are skipped by the caller, everything accepted must survive serialization
    #[cfg(not(kani))]
    harness!(sampled_snap_builder_near_limit_heavy, unwind = 1, {
        use super::sampled::*;
        let mut items: Vec<Item> = Vec::new();
        let fill = 15 + draw::usize_le(1);
        for i in 0..fill {
            items.push((type_of(3), i as u16, vec![7; 1000 + draw::usize_le(40)]));
        }
        for i in 0..draw::usize_le(12) {
            let sel = draw::usize_le(7);
            items.push((type_of(sel), 100 + i as u16, vec![-1; draw::usize_le(400)]));
        }
        for i in 0..draw::usize_le(10) {
            let sel = 4 + draw::usize_le(2);
            items.push((type_of(sel), 200 + i as u16, vec![3; draw::usize_le(6)]));
        }
        draw::reached();
        contract_wire_roundtrip(&items);
    });

    #[cfg(not(kani))]
    harness!(sampled_snap_parts_transfer, unwind = 1, {
        use super::sampled_parts::*;
        let mut transfers = Vec::new();
        let mut tick = draw::i32() / 2;
        for _ in 0..(1 + draw::usize_le(3)) {
            tick = tick.wrapping_add(1 + draw::usize_le(40) as i32);
            if tick == i32::MAX {
                break;
            }
            let len = match draw::usize_le(9) {
                0 => 0,
                1 => 1,
                2 => 899,
                3 => 900,
                4 => 901,
                5 => 1800,
                6 => 2700,
                7 => 900 * (1 + draw::usize_le(5)),
                _ => draw::usize_le(4000),
            };
            let seed = draw::u8();
            let data: Vec<u8> = (0..len).map(|i| (i as u8).wrapping_mul(31).wrapping_add(seed)).collect();
            let order: Vec<usize> = (0..draw::usize_le(6)).map(|_| draw::usize_le(7)).collect();
            transfers.push(Transfer { tick, base: tick.wrapping_sub(draw::usize_le(60) as i32), data, crc: draw::i32(), order, complete: draw::usize_le(3) != 0 });
        }
        draw::reached();
        contract_parts_transfer(&transfers);
    });

    #[cfg(not(kani))]
    harness!(sampled_snap_readers_total, unwind = 1, {
        // a snapshot in wire form with plausible header / offsets / keys, then disturbed; a delta likewise
        let n_items = draw::usize_le(4);
        let mut items: Vec<Vec<i32>> = Vec::new();
        for _ in 0..n_items {
            let mut it = vec![((draw::usize_le(9) as i32) << 16) | draw::usize_le(3) as i32];
            for _ in 0..draw::usize_le(3) {
                it.push(draw::i32());
            }
            items.push(it);
        }
        let mut body: Vec<i32> = Vec::new();
        let mut offsets: Vec<i32> = Vec::new();
        for it in &items {
            offsets.push(body.len() as i32 * 4);
            body.extend_from_slice(it);
        }
        let mut snap_ints = vec![body.len() as i32 * 4, n_items as i32];
        snap_ints.extend_from_slice(&offsets);
        snap_ints.extend_from_slice(&body);
        for _ in 0..draw::usize_le(2) {
            if !snap_ints.is_empty() {
                let i = draw::usize_le(snap_ints.len() - 1);
                snap_ints[i] = draw::i32();
            }
        }
        if draw::usize_le(5) == 0 {
            let cut = draw::usize_le(snap_ints.len());
            snap_ints.truncate(cut);
        }
        // delta: num_deleted, num_updated, 0, deleted keys, (type, id, [size], data)*
        let nd = draw::usize_le(2);
        let nu = draw::usize_le(3);
        let mut delta = vec![nd as i32, nu as i32, 0];
        for _ in 0..nd {
            delta.push(((draw::usize_le(9) as i32) << 16) | draw::usize_le(3) as i32);
        }
        for _ in 0..nu {
            delta.push(draw::usize_le(9) as i32);
            delta.push(draw::usize_le(3) as i32);
            let sz = draw::usize_le(3);
            if draw::usize_le(3) != 0 {
                delta.push(sz as i32);
            }
            for _ in 0..sz {
                delta.push(draw::i32());
            }
        }
        for _ in 0..draw::usize_le(2) {
            let i = draw::usize_le(delta.len() - 1);
            delta[i] = draw::i32();
        }
        let agreed = draw::bool();
        draw::reached();
        super::sampled_total::contract_readers_total(&snap_ints, &delta, agreed);
    });

    #[cfg(not(kani))]
    harness!(sampled_snap_two_party, unwind = 1, {
        use super::sampled_party::*;
        let mut steps = Vec::new();
        for _ in 0..draw::usize_le(8) {
            let mut items = super::sampled_proofs_support::draw_items(5);
            // now and then a snapshot big enough for a multi-part delta
            if draw::usize_le(5) == 0 {
                for k in 0..(1 + draw::usize_le(2)) {
                    items.push((crate::format::TypeId::Ordinal(100), 500 + k as u16, vec![draw::i32(); 250 + 100 * k]));
                }
            }
            let deliveries: Vec<usize> = (0..draw::usize_le(4)).map(|_| draw::usize_le(5)).collect();
            steps.push(Step { items, deliveries, clean: draw::usize_le(3) != 0, ack: draw::usize_le(3), gap: 1 + draw::usize_le(3) as i32, repeat: draw::usize_le(3) == 0 });
        }
        let agreed = draw::bool();
        draw::reached();
        contract_two_party(&steps, agreed);
    });

}

// ---- sampled contracts over the public snapshot API (C09, C10): native PRNG driver only ---------------------------
// Kani cannot run these (BTreeMap-heavy; a 2-item harness did not finish in 25 minutes); the Verus units snap_ops /
// snap_raw prove the per-function contracts.  These bodies state the PROPERTY-level contracts end to end and are run
// on sampled inputs to obtain replayable counterexamples; they prove nothing.
#[cfg(not(kani))]
pub mod sampled {
    use crate::format::TypeId;
    use crate::snap::Builder;
    use crate::snap::Delta;
    use crate::snap::Snap;
    use libtw2_packer::with_packer;
    use libtw2_packer::IntUnpacker;
    use libtw2_packer::Unpacker;
    use uuid::Uuid;

    pub type Item = (TypeId, u16, Vec<i32>);

    pub fn type_of(sel: usize) -> TypeId {
        let u = |b: u8| Uuid::from_bytes([b, 0x11, 0x22, 0x33, 0x44, 0x55, 0x66, 0x77, 0x88, 0x99, 0xaa, 0xbb, 0xcc, 0xdd, 0xee, b]);
        match sel % 8 {
            0 => TypeId::Ordinal(1),
            1 => TypeId::Ordinal(2),
            2 => TypeId::Ordinal(7),
            3 => TypeId::Ordinal(0x3fff),
            4 => TypeId::Uuid(u(0x01)),
            5 => TypeId::Uuid(u(0xfe)),
            6 => TypeId::Uuid(u(0x80)),
            _ => TypeId::Ordinal(1),
        }
    }
    /// item length is a function of the type (pre-agreed sizes; same key => same size in both snapshots).  All UUID
    /// types share one length: two independently built snapshots may give the same raw type id to different UUIDs,
    /// and Delta::create requires equal sizes for equal raw keys (documented precondition, see unit snap_ops).
    pub fn len_of(sel: usize) -> usize {
        [0, 1, 2, 3, 2, 2, 2, 0][sel % 8]
    }
    pub fn obj_size(agreed: bool) -> impl FnMut(u16) -> Option<u32> {
        move |raw_type: u16| {
            if !agreed {
                return None;
            }
            match raw_type {
                1 => Some(0),
                2 => Some(1),
                7 => Some(2),
                0x3fff => Some(3),
                _ => None,
            }
        }
    }
    /// builds through the builder, skipping refused items; returns the snapshot and the accepted items
    pub fn build(items: &[Item]) -> (Snap, Vec<Item>) {
        let mut b = Builder::new();
        let mut accepted = Vec::new();
        for (t, id, data) in items {
            if b.add_item(*t, *id, data).is_ok() {
                accepted.push((*t, *id, data.clone()));
            }
        }
        (b.finish(), accepted)
    }
    pub fn view(s: &Snap) -> Vec<Item> {
        let mut v: Vec<Item> = s.items().map(|i| (i.type_id, i.id, i.data.to_vec())).collect();
        v.sort();
        v
    }
    pub fn sorted(mut v: Vec<Item>) -> Vec<Item> {
        v.sort();
        v
    }
    pub fn same(a: &Snap, b: &Snap, universe: &[Item]) {
        assert!(view(a) == view(b), "item sets differ");
        assert!(a.crc() == b.crc(), "crc differs");
        for (t, id, _) in universe {
            assert!(a.item(*t, *id) == b.item(*t, *id), "lookup differs");
        }
        let mut k1 = Vec::new();
        let mut k2 = Vec::new();
        let mut i1 = vec![0i32; 17000];
        let mut i2 = vec![0i32; 17000];
        let w1 = a.write_to_ints(&mut k1, &mut i1).unwrap().to_vec();
        let w2 = b.write_to_ints(&mut k2, &mut i2).unwrap().to_vec();
        assert!(w1 == w2, "integer wire forms differ");
    }

    /// C10: what the builder accepted is what the snapshot holds; bytes and ints wire forms read back to the same
    /// snapshot without warnings; recycling keeps the UUID types.
    pub fn contract_wire_roundtrip(items: &[Item]) {
        let (snap, accepted) = build(items);
        assert!(view(&snap) == sorted(accepted.clone()), "snapshot differs from the accepted items");
        for (t, id, data) in &accepted {
            assert!(snap.item(*t, *id) == Some(&data[..]));
        }
        // bytes
        let mut keys = Vec::new();
        let mut bytes: Vec<u8> = Vec::with_capacity(5 * 17000);
        with_packer(&mut bytes, |p| snap.write(&mut keys, p).map(|_| ())).unwrap();
        let mut warnings: Vec<crate::format::Warning> = Vec::new();
        let mut buf = Vec::new();
        let mut back = Snap::empty();
        back.read(&mut warnings, &mut buf, &bytes).expect("reading the written bytes failed");
        assert!(warnings.is_empty(), "warnings reading bytes");
        same(&snap, &back, items);
        // ints
        let mut ints = vec![0i32; 17000];
        let n = snap.write_to_ints(&mut keys, &mut ints).unwrap().len();
        let mut back2 = Snap::empty();
        back2.read_from_ints(&mut warnings, &ints[..n]).expect("reading the written ints failed");
        assert!(warnings.is_empty(), "warnings reading ints");
        same(&snap, &back2, items);
        // recycle: the copy still knows its UUID types and accepts the same items again
        let mut b = back.recycle();
        for (t, id, data) in &accepted {
            b.add_item(*t, *id, data).expect("recycled builder refused an item that fit before");
        }
        let again = b.finish();
        assert!(view(&again) == sorted(accepted));
        // ... and a recycled builder can still take a UUID type it has never seen: its next raw type id must not collide with a
        // type it kept (whatever the order in which the kept types were first used); only the format limits may refuse it
        let mut b2 = again.recycle();
        let fresh = Uuid::from_bytes([0x42, 0x11, 0x22, 0x33, 0x44, 0x55, 0x66, 0x77, 0x88, 0x99, 0xaa, 0xbb, 0xcc, 0xdd, 0xee, 0x42]);
        match b2.add_item(TypeId::Uuid(fresh), 0, &[]) {
            Err(crate::snap::BuilderError::DuplicateKey) => panic!("recycled builder: raw type id of a new UUID type collides with a kept one"),
            _ => {}
        }
    }

    /// C09: delta(A, B) applied to A is B (items, data, crc), also through both wire forms, without warnings; the
    /// result is itself serializable (C10, 'the same holds for snapshots obtained by applying a delta').
    pub fn contract_delta_roundtrip(a_items: &[Item], b_items: &[Item], agreed: bool) {
        let (a, _) = build(a_items);
        let (b, _) = build(b_items);
        let mut universe = a_items.to_vec();
        universe.extend_from_slice(b_items);
        let mut delta = Delta::new();
        delta.create(&a, &b);
        let mut warnings: Vec<crate::format::Warning> = Vec::new();
        let mut c = Snap::empty();
        c.read_with_delta(&mut warnings, &a, &delta).expect("applying the delta failed");
        assert!(warnings.is_empty(), "warnings applying the delta");
        same(&b, &c, &universe);
        // bytes wire form of the delta
        let mut bytes: Vec<u8> = Vec::with_capacity(5 * 40000);
        with_packer(&mut bytes, |p| delta.write(obj_size(agreed), p).map(|_| ())).unwrap();
        let mut d2 = Delta::new();
        let mut up = Unpacker::new(&bytes);
        d2.read(&mut warnings, obj_size(agreed), &mut up).expect("reading the written delta failed");
        assert!(warnings.is_empty(), "warnings reading the delta");
        let mut c2 = Snap::empty();
        c2.read_with_delta(&mut warnings, &a, &d2).expect("applying the re-read delta failed");
        assert!(warnings.is_empty());
        same(&b, &c2, &universe);
        // ints wire form of the delta
        let mut ints = vec![0i32; 40000];
        let n = delta.write_to_ints(obj_size(agreed), &mut ints).unwrap().len();
        let mut d3 = Delta::new();
        let mut ip = IntUnpacker::new(&ints[..n]);
        d3.read_from_ints(&mut warnings, obj_size(agreed), &mut ip).expect("reading the delta ints failed");
        let mut c3 = Snap::empty();
        c3.read_with_delta(&mut warnings, &a, &d3).expect("applying the int delta failed");
        assert!(warnings.is_empty());
        same(&b, &c3, &universe);
        // the result of applying a delta serializes like any other snapshot
        let mut keys = Vec::new();
        let mut sb: Vec<u8> = Vec::with_capacity(5 * 17000);
        with_packer(&mut sb, |p| c.write(&mut keys, p).map(|_| ())).unwrap();
        let mut buf = Vec::new();
        let mut back = Snap::empty();
        back.read(&mut warnings, &mut buf, &sb).expect("re-reading the patched snapshot failed");
        same(&b, &back, &universe);
    }
}

#[cfg(not(kani))]
mod sampled_proofs_support {
    use super::draw;
    use super::sampled::*;
    pub fn draw_items(max: usize) -> Vec<Item> {
        let n = draw::usize_le(max);
        let mut v = Vec::new();
        for _ in 0..n {
            let sel = draw::usize_le(7);
            let id = match draw::usize_le(5) {
                0 => 0,
                1 => 1,
                2 => 2,
                3 => 65535,
                _ => draw::u16(),
            };
            let data: Vec<i32> = (0..len_of(sel)).map(|_| draw::i32()).collect();
            v.push((type_of(sel), id, data));
        }
        v
    }
}
