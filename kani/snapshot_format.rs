// Contract harnesses for snapshot/src/format.rs (C09, C10): item keys and UUID item data.
use super::*;

#[path = "/verif/kani/draw.rs"]
mod draw;

/// contract key / key_to_raw_type_id / key_to_id, all u16 x u16:
///   inverse of each other; as an unsigned 32-bit number the key orders by (type, id)
///   (the wire order), as a signed number types >= 0x8000 sort first.
pub fn contract_key(t: u16, id: u16, t2: u16, id2: u16) {
    let k = key(t, id);
    assert!(key_to_raw_type_id(k) == t);
    assert!(key_to_id(k) == id);
    let k2 = key(t2, id2);
    assert!((k == k2) == (t == t2 && id == id2));
    assert!(((k as u32) < (k2 as u32)) == ((t, id) < (t2, id2)));
    assert!((k < 0) == (t >= 0x8000));
}
/// every i32 is the key of exactly its (type, id) pair
pub fn contract_key_inverse(k: i32) {
    assert!(key(key_to_raw_type_id(k), key_to_id(k)) == k);
}

pub struct Count(pub u32);
impl Warn<Warning> for Count {
    fn warn(&mut self, _: Warning) {
        self.0 += 1;
    }
}

/// contract uuid_to_item_data / item_data_to_uuid: inverse for all 128-bit values, no warning;
/// item_data_to_uuid is None for fewer than 4 ints, warns (and ignores the excess) for more than 4.
pub fn contract_uuid_roundtrip(bytes: [u8; 16], extra: i32) {
    let uuid = Uuid::from_bytes(bytes);
    let data = uuid_to_item_data(uuid);
    let mut w = Count(0);
    let back = item_data_to_uuid(&mut w, &data);
    assert!(back == Some(uuid));
    assert!(w.0 == 0);
    assert!(item_data_to_uuid(&mut w, &data[..3]).is_none());
    let five = [data[0], data[1], data[2], data[3], extra];
    let mut w2 = Count(0);
    assert!(item_data_to_uuid(&mut w2, &five) == Some(uuid));
    assert!(w2.0 == 1);
    // big-endian layout prescribed by doc/snapshot.md
    assert!(data[0] == i32::from_be_bytes([bytes[0], bytes[1], bytes[2], bytes[3]]));
    assert!(data[3] == i32::from_be_bytes([bytes[12], bytes[13], bytes[14], bytes[15]]));
}

pub mod proofs {
    use super::draw;
    use super::draw::harness;
    use super::*;
    harness!(complete_snap_key, {
        let t = draw::u16();
        let id = draw::u16();
        let t2 = draw::u16();
        let id2 = draw::u16();
        draw::reached();
        contract_key(t, id, t2, id2);
    });
    harness!(complete_snap_key_inverse, {
        let k = draw::i32();
        draw::reached();
        contract_key_inverse(k);
    });
    harness!(complete_uuid_roundtrip, unwind = 18, {
        let b = draw::bytes::<16>();
        let e = draw::i32();
        draw::reached();
        contract_uuid_roundtrip(b, e);
    });
}
