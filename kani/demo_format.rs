// Contract harnesses for demo/src/format.rs (C15): tick markers and chunk headers.
use super::*;

#[path = "/verif/kani/draw.rs"]
mod draw;

pub struct Count(pub u32);
impl Warn<Warning> for Count {
    fn warn(&mut self, _: Warning) {
        self.0 += 1;
    }
}

fn version_of(v: u8) -> Version {
    match v % 4 {
        0 => Version::V3,
        1 => Version::V4,
        2 => Version::V5,
        _ => Version::V6Ddnet,
    }
}

/// contract TickMarker::new(tick, prev, keyframe, version):
///   requires prev.map_or(true, |p| tick > p)        (asserted by the function)
///   ensures  Delta(d) iff !keyframe && prev == Some(p) && tick - p does not overflow && tick - p <= max_tick_delta(version),
///            then d == tick - p and the reader's accumulation p + d gives back tick; Absolute(tick) otherwise.
pub fn contract_tick_marker_new(tick: i32, has_prev: bool, prev: i32, keyframe: bool, v: u8) {
    let version = version_of(v);
    let prev_opt = if has_prev { Some(prev) } else { None };
    if has_prev && !(tick > prev) {
        return; // outside the precondition
    }
    let m = TickMarker::new(tick, prev_opt, keyframe, version);
    let max = version.max_tick_delta() as i64;
    let diff = tick as i64 - prev as i64;
    let inline = has_prev && !keyframe && diff <= max && diff <= i32::MAX as i64;
    match m {
        TickMarker::Delta(d) => {
            assert!(inline);
            assert!(d as i64 == diff);
            assert!(prev.wrapping_add(d as i32) == tick);
            assert!(d <= version.max_tick_delta());
        }
        TickMarker::Absolute(t) => {
            assert!(!inline);
            assert!(t == tick);
        }
    }
}

/// contract ChunkHeader::write -> ChunkHeader::read for data chunks, all sizes 0..=65535 and kinds, V5/V6:
///   read(write(h)) == h, no warning, header length 1 / 2 / 3 bytes by size class (<30, <=255, else).
pub fn contract_data_header_roundtrip(kind_sel: u8, size: u16, ddnet: bool) {
    let kind = match kind_sel % 3 {
        0 => DataKind::Snapshot,
        1 => DataKind::Message,
        _ => DataKind::SnapshotDelta,
    };
    let version = if ddnet { Version::V6Ddnet } else { Version::V5 };
    let mut buf = [0u8; 4];
    let written;
    {
        let mut cur = io::Cursor::new(&mut buf[..]);
        let h = ChunkHeader::Data { kind, size };
        assert!(h.write(&mut cur, version).is_ok());
        written = cur.position() as usize;
    }
    assert!(written == if size < 30 { 1 } else if size <= 255 { 2 } else { 3 });
    let mut w = Count(0);
    let mut cur = io::Cursor::new(&buf[..written]);
    match ChunkHeader::read(&mut cur, version, &mut w) {
        Ok(Some(ChunkHeader::Data { kind: k2, size: s2 })) => {
            assert!(k2 == kind);
            assert!(s2 == size);
        }
        _ => assert!(false),
    }
    assert!(w.0 == 0);
    assert!(cur.position() as usize == written);
}

/// contract tick chunk headers: write -> read gives the same marker and keyframe flag, no warning
pub fn contract_tick_header_roundtrip(delta: bool, d: u8, t: i32, keyframe: bool, ddnet: bool) {
    let version = if ddnet { Version::V6Ddnet } else { Version::V5 };
    let marker = if delta { TickMarker::Delta(d) } else { TickMarker::Absolute(t) };
    if delta && (d > version.max_tick_delta() || keyframe) {
        return; // asserted by the writer
    }
    let mut buf = [0u8; 8];
    let written;
    {
        let mut cur = io::Cursor::new(&mut buf[..]);
        assert!(ChunkHeader::Tick { marker, keyframe }.write(&mut cur, version).is_ok());
        written = cur.position() as usize;
    }
    let mut w = Count(0);
    let mut cur = io::Cursor::new(&buf[..written]);
    match ChunkHeader::read(&mut cur, version, &mut w) {
        Ok(Some(ChunkHeader::Tick { marker: m2, keyframe: k2 })) => {
            assert!(k2 == keyframe);
            match (marker, m2) {
                (TickMarker::Delta(a), TickMarker::Delta(b)) => assert!(a == b),
                (TickMarker::Absolute(a), TickMarker::Absolute(b)) => assert!(a == b),
                _ => assert!(false),
            }
        }
        _ => assert!(false),
    }
    assert!(w.0 == 0);
}

pub mod proofs {
    use super::draw;
    use super::draw::harness;
    use super::*;
    harness!(complete_tick_marker_new, {
        let tick = draw::i32();
        let has_prev = draw::bool();
        let prev = draw::i32();
        let keyframe = draw::bool();
        let v = draw::u8();
        draw::reached();
        contract_tick_marker_new(tick, has_prev, prev, keyframe, v);
    });
    // The chunk-header round trips (contract_data_header_roundtrip / contract_tick_header_roundtrip) go through
    // binrw's generic io code; CBMC did not finish them within 15-25 minutes.  They are decided by the Verus
    // unit demo_hdr instead (exact header bytes + round-trip lemma).
    // ---- sampled (native PRNG driver only; never counted as proved) ----
    #[cfg(not(kani))]
    fn big_stack<F: FnOnce() + Send + 'static>(f: F) {
        // readers and writers hold several 64 KiB buffers by value; unoptimized builds copy them around
        let r = std::thread::Builder::new().stack_size(64 << 20).spawn(f).unwrap().join();
        if let Err(e) = r {
            std::panic::resume_unwind(e);
        }
    }
    #[cfg(not(kani))]
    fn draw_bytes(max: usize) -> Vec<u8> {
        // lengths on both sides of the chunk size classes (29/30, 255/256) are likely
        let n = match draw::usize_le(9) {
            0 => 0,
            1 => 29,
            2 => 30,
            3 => 255,
            4 => 256,
            5 => draw::usize_le(40),
            6 => 200 + draw::usize_le(120),
            _ => draw::usize_le(max),
        }
        .min(max);
        let fill = draw::u8();
        let mode = draw::usize_le(2);
        (0..n).map(|i| match mode { 0 => fill, 1 => (i as u8).wrapping_mul(fill | 1), _ => draw::u8() }).collect()
    }
    #[cfg(not(kani))]
    harness!(sampled_demo_raw_roundtrip_heavy, unwind = 1, {
        use super::sampled::*;
        let h = Hdr {
            net_version: draw_bytes(63).into_iter().filter(|&b| b != 0).collect(),
            map_name: draw_bytes(63).into_iter().filter(|&b| b != 0).collect(),
            sha: if draw::bool() { Some(draw::bytes::<32>()) } else { None },
            crc: draw::u32(),
            server: draw::bool(),
            length: draw::i32(),
            timestamp: draw_bytes(19).into_iter().filter(|&b| b != 0).collect(),
            map: draw_bytes(600),
        };
        let mut chunks = Vec::new();
        let mut tick: i64 = draw::i32() as i64;
        for _ in 0..draw::usize_le(10) {
            match draw::usize_le(3) {
                0 => {
                    let gap = [1i64, 2, 30, 31, 32, 63, 64, 255, 256, 100000][draw::usize_le(9)];
                    if tick + gap > i32::MAX as i64 {
                        continue;
                    }
                    tick += gap;
                    chunks.push(Ch::Tick(tick as i32, draw::bool()));
                }
                1 => chunks.push(Ch::Snap(draw_bytes(1500))),
                2 => chunks.push(Ch::Delta(draw_bytes(1500))),
                _ => chunks.push(Ch::Msg(draw_bytes(700))),
            }
        }
        draw::reached();
        big_stack(move || contract_raw_roundtrip(&h, &chunks));
    });
    #[cfg(not(kani))]
    harness!(sampled_demo_typed_roundtrip_heavy, unwind = 1, {
        use super::sampled::*;
        let mut steps = Vec::new();
        let mut tick: i32 = draw::usize_le(100) as i32;
        for _ in 0..draw::usize_le(10) {
            if draw::usize_le(4) == 0 {
                let n = draw::usize_le(12);
                steps.push(Step::Msg((0..n).map(|_| draw::u8()).collect()));
                continue;
            }
            let mut objs: Vec<(Obj, u16)> = Vec::new();
            for _ in 0..draw::usize_le(4) {
                let ty = 1 + draw::usize_le(3) as u16;
                let id = draw::usize_le(2) as u16;
                if objs.iter().any(|(o, i)| o.ty == ty && *i == id) {
                    continue;
                }
                let data = (0..obj_len(ty)).map(|_| draw::i32()).collect();
                objs.push((Obj { ty, data }, id));
            }
            // one step in five offers a tick that does not increase (must be refused, nothing else may change)
            let t = if draw::usize_le(4) == 0 {
                tick - draw::usize_le(3) as i32
            } else {
                tick += [1, 1, 2, 31, 32, 33, 250, 251, 300][draw::usize_le(8)];
                tick
            };
            steps.push(Step::Snap(t, objs));
        }
        draw::reached();
        big_stack(move || contract_typed_roundtrip(&steps));
    });

}

// ---- sampled contracts over the public demo API (C15): native PRNG driver only ------------------------------------
// binrw / io::Cursor / the snapshot BTreeMaps are out of reach of Kani; the Verus unit demo_hdr proves the chunk
// header codec.  These bodies state the PROPERTY-level contract end to end and run on sampled inputs to obtain
// replayable counterexamples; they prove nothing.
#[cfg(not(kani))]
pub mod sampled {
    use crate::ddnet::Chunk;
    use crate::ddnet::DemoReader;
    use crate::ddnet::DemoWriter;
    use crate::DemoKind;
    use crate::RawChunk;
    use crate::Reader;
    use crate::Writer;
    use libtw2_common::digest::Sha256;
    use libtw2_gamenet_common::error::Error as GError;
    use libtw2_gamenet_common::msg::MessageId;
    use libtw2_gamenet_common::msg::SystemOrGame;
    use libtw2_gamenet_common::snap_obj::TypeId;
    use libtw2_gamenet_common::traits;
    use libtw2_packer::ExcessData;
    use libtw2_packer::IntUnpacker;
    use libtw2_packer::Packer;
    use libtw2_packer::Unpacker;
    use libtw2_warn::Warn;
    use std::io::Cursor;

    // ---- raw level ----
    #[derive(Clone, Debug, PartialEq)]
    pub enum Ch {
        Tick(i32, bool),
        Snap(Vec<u8>),
        Delta(Vec<u8>),
        Msg(Vec<u8>),
    }
    pub struct Hdr {
        pub net_version: Vec<u8>,
        pub map_name: Vec<u8>,
        pub sha: Option<[u8; 32]>,
        pub crc: u32,
        pub server: bool,
        pub length: i32,
        pub timestamp: Vec<u8>,
        pub map: Vec<u8>,
    }
    /// every accepted chunk sequence is read back identically (messages zero-padded to a multiple of four), header
    /// fields equal, no warnings
    pub fn contract_raw_roundtrip(h: &Hdr, chunks: &[Ch]) {
        let mut file: Vec<u8> = Vec::new();
        {
            let w = Writer::new(
                Cursor::new(&mut file),
                &h.net_version,
                &h.map_name,
                h.sha.map(Sha256),
                h.crc,
                if h.server { DemoKind::Server } else { DemoKind::Client },
                h.length,
                &h.timestamp,
                &h.map,
            );
            // a negative length is not a valid header (the reader asserts length >= 0): the writer must refuse it
            // with an error; every other header here is valid and must be accepted
            let mut w = match w {
                Err(_) if h.length < 0 => return,
                Err(e) => panic!("writer refused a valid header: {:?}", e),
                Ok(_) if h.length < 0 => panic!("writer accepted a negative length, which the reader refuses"),
                Ok(w) => w,
            };
            for c in chunks {
                match c {
                    Ch::Tick(t, k) => w.write_tick(*k, *t).expect("write_tick"),
                    Ch::Snap(d) => w.write_snapshot(d).expect("write_snapshot"),
                    Ch::Delta(d) => w.write_snapshot_delta(d).expect("write_snapshot_delta"),
                    Ch::Msg(d) => w.write_message(d).expect("write_message"),
                }
            }
        }
        let mut warnings: Vec<crate::Warning> = Vec::new();
        let mut r = Reader::new(Cursor::new(&file[..]), &mut warnings).expect("reader refused the written file");
        assert!(r.net_version() == &h.net_version[..], "net_version");
        assert!(r.map_name() == &h.map_name[..], "map_name");
        assert!(r.map_crc() == h.crc, "map_crc");
        assert!(r.length() == h.length, "length");
        assert!(r.timestamp() == &h.timestamp[..], "timestamp");
        assert!(r.map_data() == &h.map[..], "map data");
        assert!(r.map_size() as usize == h.map.len(), "map size");
        assert!(r.map_sha256().map(|s| s.0) == h.sha, "sha256");
        assert!(matches!((r.kind(), h.server), (DemoKind::Server, true) | (DemoKind::Client, false)), "kind");
        let mut got: Vec<Ch> = Vec::new();
        loop {
            match r.read_chunk(&mut warnings).expect("read_chunk failed") {
                None => break,
                Some(RawChunk::Tick { tick, keyframe }) => got.push(Ch::Tick(tick, keyframe)),
                Some(RawChunk::Snapshot(d)) => got.push(Ch::Snap(d.to_vec())),
                Some(RawChunk::SnapshotDelta(d)) => got.push(Ch::Delta(d.to_vec())),
                Some(RawChunk::Message(d)) => got.push(Ch::Msg(d.to_vec())),
                Some(RawChunk::Unknown) => panic!("unknown chunk read back"),
            }
        }
        assert!(warnings.is_empty(), "warnings while reading");
        let want: Vec<Ch> = chunks
            .iter()
            .map(|c| match c {
                Ch::Msg(d) => {
                    let mut d = d.clone();
                    while d.len() % 4 != 0 {
                        d.push(0);
                    }
                    Ch::Msg(d)
                }
                c => c.clone(),
            })
            .collect();
        assert!(got == want, "chunk sequence differs");
    }

    // ---- typed level: a minimal protocol (objects are (type, ints), messages are raw bytes) ----
    #[derive(Clone, Debug, PartialEq, Eq, PartialOrd, Ord)]
    pub struct Obj {
        pub ty: u16,
        pub data: Vec<i32>,
    }
    impl traits::SnapObj for Obj {
        fn decode_obj<W: Warn<ExcessData>>(_warn: &mut W, obj_type_id: TypeId, p: &mut IntUnpacker) -> Result<Obj, GError> {
            let ty = match obj_type_id {
                TypeId::Ordinal(t) => t,
                TypeId::Uuid(_) => return Err(GError::UnknownId),
            };
            let mut data = Vec::new();
            while !p.is_empty() {
                data.push(p.read_int().unwrap());
            }
            Ok(Obj { ty, data })
        }
        fn obj_type_id(&self) -> TypeId {
            TypeId::Ordinal(self.ty)
        }
        fn encode(&self) -> &[i32] {
            &self.data
        }
    }
    #[derive(Clone, Debug, PartialEq)]
    pub struct Msg(pub Vec<u8>);
    impl<'a> traits::Message<'a> for Msg {
        fn decode_msg<W: Warn<libtw2_packer::Warning>>(
            _warn: &mut W,
            _msg_id: SystemOrGame<MessageId, MessageId>,
            p: &mut Unpacker<'a>,
        ) -> Result<Msg, GError> {
            Ok(Msg(p.read_rest().unwrap().to_vec()))
        }
        fn msg_id(&self) -> SystemOrGame<MessageId, MessageId> {
            SystemOrGame::Game(MessageId::Ordinal(5))
        }
        fn encode_msg<'d, 's>(&self, mut p: Packer<'d, 's>) -> Result<&'d [u8], libtw2_buffer::CapacityError> {
            p.write_rest(&self.0)?;
            Ok(p.written())
        }
    }
    pub struct Proto;
    impl traits::ProtocolStatic for Proto {
        type SnapObj = Obj;
        fn obj_size(type_id: u16) -> Option<u32> {
            // types 1 and 2 have pre-agreed sizes, the others are explicit
            match type_id {
                1 => Some(1),
                2 => Some(2),
                _ => None,
            }
        }
    }
    impl<'a> traits::Protocol<'a> for Proto {
        type Game = Msg;
        type System = Msg;
    }
    pub fn obj_len(ty: u16) -> usize {
        match ty {
            1 => 1,
            2 => 2,
            3 => 0,
            _ => 3,
        }
    }

    #[derive(Clone, Debug)]
    pub enum Step {
        /// write_snap(tick, objects): tick is absolute; `expect_refused` when it does not increase
        Snap(i32, Vec<(Obj, u16)>),
        Msg(Vec<u8>),
    }
    /// the typed writer refuses non-increasing ticks with TooLowTickNumber and nothing else changes; what the typed
    /// reader reports per tick is exactly what was accepted, across key frames and deltas, without warnings
    pub fn contract_typed_roundtrip(steps: &[Step]) {
        let mut file: Vec<u8> = Vec::new();
        let mut expected: Vec<(i32, Vec<(Obj, u16)>)> = Vec::new();
        let mut expected_msgs = 0usize;
        {
            let mut w = DemoWriter::<Proto>::new(
                Cursor::new(&mut file),
                b"0.6 626fce9a778df4d4",
                b"dm1",
                None,
                0x1234_5678,
                DemoKind::Server,
                0,
                b"2024-01-01_00-00-00",
                b"",
            )
            .expect("DemoWriter::new");
            let mut last: Option<i32> = None;
            for s in steps {
                match s {
                    Step::Snap(tick, objs) => {
                        let r = w.write_snap(*tick, objs.iter().map(|(o, id)| (o, *id)));
                        let must_refuse = *tick < 0 || last.map_or(false, |l| *tick <= l);
                        if must_refuse {
                            match r {
                                Err(crate::ddnet::WriteError::TooLowTickNumber) => {}
                                Err(e) => panic!("wrong error for a non-increasing tick: {}", e),
                                Ok(()) => panic!("non-increasing tick accepted"),
                            }
                        } else {
                            if let Err(e) = r {
                                panic!("write_snap({}) failed: {}", tick, e);
                            }
                            last = Some(*tick);
                            let mut o = objs.clone();
                            o.sort();
                            expected.push((*tick, o));
                        }
                    }
                    Step::Msg(m) => {
                        w.write_msg(&Msg(m.clone())).expect("write_msg");
                        expected_msgs += 1;
                    }
                }
            }
        }
        let mut warnings: Vec<crate::ddnet::Warning> = Vec::new();
        let mut r = DemoReader::<Proto>::new(Cursor::new(&file[..]), &mut warnings).expect("DemoReader::new");
        let mut actual: Vec<(i32, Vec<(Obj, u16)>)> = Vec::new();
        let mut cur = None;
        let mut msgs = 0usize;
        loop {
            match r.next_chunk(&mut warnings) {
                Ok(None) => break,
                Ok(Some(Chunk::Tick(t))) => cur = Some(t),
                Ok(Some(Chunk::Snapshot(objs))) => {
                    let t = cur.take().expect("snapshot without tick");
                    let mut o: Vec<(Obj, u16)> = objs.map(|(o, id)| (o.clone(), *id)).collect();
                    o.sort();
                    actual.push((t, o));
                }
                Ok(Some(Chunk::Message(_))) => msgs += 1,
                Ok(Some(Chunk::Invalid)) => panic!("invalid chunk read back"),
                Err(e) => panic!("read error: {}", e),
            }
        }
        assert!(warnings.is_empty(), "warnings while reading: {:?}", warnings.len());
        assert!(msgs == expected_msgs, "number of messages differs");
        assert!(actual == expected, "object sets per tick differ");
    }
}
