// Contract harnesses for demo/src/format.rs (C15): tick markers and chunk headers.
use super::*;

#[path = "/verif/kani/draw.rs"]
mod draw;

pub struct Count(pub u32);
impl Warn<Warning> for Count {
    fn warn(&mut self, _: Warning) {
        self.0 += 1;
    }
}

fn version_of(v: u8) -> Version {
    match v % 4 {
        0 => Version::V3,
        1 => Version::V4,
        2 => Version::V5,
        _ => Version::V6Ddnet,
    }
}

/// contract TickMarker::new(tick, prev, keyframe, version):
///   requires prev.map_or(true, |p| tick > p)        (asserted by the function)
///   ensures  Delta(d) iff !keyframe && prev == Some(p) && tick - p does not overflow && tick - p <= max_tick_delta(version),
///            then d == tick - p and the reader's accumulation p + d gives back tick; Absolute(tick) otherwise.
pub fn contract_tick_marker_new(tick: i32, has_prev: bool, prev: i32, keyframe: bool, v: u8) {
    let version = version_of(v);
    let prev_opt = if has_prev { Some(prev) } else { None };
    if has_prev && !(tick > prev) {
        return; // outside the precondition
    }
    let m = TickMarker::new(tick, prev_opt, keyframe, version);
    let max = version.max_tick_delta() as i64;
    let diff = tick as i64 - prev as i64;
    let inline = has_prev && !keyframe && diff <= max && diff <= i32::MAX as i64;
    match m {
        TickMarker::Delta(d) => {
            assert!(inline);
            assert!(d as i64 == diff);
            assert!(prev.wrapping_add(d as i32) == tick);
            assert!(d <= version.max_tick_delta());
        }
        TickMarker::Absolute(t) => {
            assert!(!inline);
            assert!(t == tick);
        }
    }
}

/// contract ChunkHeader::write -> ChunkHeader::read for data chunks, all sizes 0..=65535 and kinds, V5/V6:
///   read(write(h)) == h, no warning, header length 1 / 2 / 3 bytes by size class (<30, <=255, else).
pub fn contract_data_header_roundtrip(kind_sel: u8, size: u16, ddnet: bool) {
    let kind = match kind_sel % 3 {
        0 => DataKind::Snapshot,
        1 => DataKind::Message,
        _ => DataKind::SnapshotDelta,
    };
    let version = if ddnet { Version::V6Ddnet } else { Version::V5 };
    let mut buf = [0u8; 4];
    let written;
    {
        let mut cur = io::Cursor::new(&mut buf[..]);
        let h = ChunkHeader::Data { kind, size };
        assert!(h.write(&mut cur, version).is_ok());
        written = cur.position() as usize;
    }
    assert!(written == if size < 30 { 1 } else if size <= 255 { 2 } else { 3 });
    let mut w = Count(0);
    let mut cur = io::Cursor::new(&buf[..written]);
    match ChunkHeader::read(&mut cur, version, &mut w) {
        Ok(Some(ChunkHeader::Data { kind: k2, size: s2 })) => {
            assert!(k2 == kind);
            assert!(s2 == size);
        }
        _ => assert!(false),
    }
    assert!(w.0 == 0);
    assert!(cur.position() as usize == written);
}

/// contract tick chunk headers: write -> read gives the same marker and keyframe flag, no warning
pub fn contract_tick_header_roundtrip(delta: bool, d: u8, t: i32, keyframe: bool, ddnet: bool) {
    let version = if ddnet { Version::V6Ddnet } else { Version::V5 };
    let marker = if delta { TickMarker::Delta(d) } else { TickMarker::Absolute(t) };
    if delta && (d > version.max_tick_delta() || keyframe) {
        return; // asserted by the writer
    }
    let mut buf = [0u8; 8];
    let written;
    {
        let mut cur = io::Cursor::new(&mut buf[..]);
        assert!(ChunkHeader::Tick { marker, keyframe }.write(&mut cur, version).is_ok());
        written = cur.position() as usize;
    }
    let mut w = Count(0);
    let mut cur = io::Cursor::new(&buf[..written]);
    match ChunkHeader::read(&mut cur, version, &mut w) {
        Ok(Some(ChunkHeader::Tick { marker: m2, keyframe: k2 })) => {
            assert!(k2 == keyframe);
            match (marker, m2) {
                (TickMarker::Delta(a), TickMarker::Delta(b)) => assert!(a == b),
                (TickMarker::Absolute(a), TickMarker::Absolute(b)) => assert!(a == b),
                _ => assert!(false),
            }
        }
        _ => assert!(false),
    }
    assert!(w.0 == 0);
}

pub mod proofs {
    use super::draw;
    use super::draw::harness;
    use super::*;
    harness!(complete_tick_marker_new, {
        let tick = draw::i32();
        let has_prev = draw::bool();
        let prev = draw::i32();
        let keyframe = draw::bool();
        let v = draw::u8();
        draw::reached();
        contract_tick_marker_new(tick, has_prev, prev, keyframe, v);
    });
    // The chunk-header round trips (contract_data_header_roundtrip / contract_tick_header_roundtrip) go through
    // binrw's generic io code; CBMC did not finish them within 15-25 minutes.  They are decided by the Verus
    // unit demo_hdr instead (exact header bytes + round-trip lemma).
}
