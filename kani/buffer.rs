// Bounded contract harnesses for libtw2-buffer (C19): every backing store, small capacities.
// The backing stores are `unsafe` pointer code (from_raw_parts_mut, set_len) outside the Verus subset; these
// harnesses run the real code under CBMC's pointer/bounds checks.  BOUNDED (capacity <= 4, prior length <= 2,
// two writes of <= 3 bytes): reported as bounded, never counted as proved.
use super::*;

#[path = "/verif/kani/draw.rs"]
mod draw;

/// contract BufferRef::write / extend through `with_buffer`, for one backing store:
///   - a write never goes past the capacity: Ok iff it fits, Err(CapacityError) otherwise;
///   - `initialized()` is exactly the bytes written, in order;
///   - after release the container grew by exactly the reported amount and holds those bytes.
fn script(b: &mut BufferRef, w1: &[u8], w2: &[u8], cap_left: usize) -> (usize, [u8; 8]) {
    let mut expect = [0u8; 8];
    let mut n = 0usize;
    assert!(b.remaining() == cap_left);
    let r1 = b.write(w1);
    if w1.len() <= cap_left {
        assert!(r1.is_ok());
        for &x in w1 {
            expect[n] = x;
            n += 1;
        }
        assert!(b.remaining() == cap_left - n);
        let r2 = b.write(w2);
        if w2.len() <= cap_left - n {
            assert!(r2.is_ok());
            for &x in w2 {
                expect[n] = x;
                n += 1;
            }
        } else {
            assert!(r2 == Err(CapacityError));
            // a failed write may have filled the buffer up to its capacity, never beyond
            n = cap_left - b.remaining();
            assert!(n <= cap_left);
        }
    } else {
        assert!(r1 == Err(CapacityError));
        n = cap_left - b.remaining();
        assert!(n <= cap_left);
    }
    (n, expect)
}

pub fn contract_vec(pre: usize, cap_extra: usize, w1: [u8; 3], l1: usize, w2: [u8; 3], l2: usize) {
    if pre > 2 || cap_extra > 4 || l1 > 3 || l2 > 3 {
        return;
    }
    let mut v: Vec<u8> = Vec::with_capacity(pre + cap_extra);
    for i in 0..pre {
        v.push(0xA0 + i as u8);
    }
    let cap_left = v.capacity() - v.len();
    let (n, expect, init_ok) = with_buffer(&mut v, |mut b| {
        let (n, e) = script(&mut b, &w1[..l1], &w2[..l2], cap_left);
        let init = b.initialized();
        let mut ok = init.len() == n;
        if n <= l1 + l2 && l1 <= cap_left && (l2 <= cap_left - l1 || true) {
            for i in 0..n.min(l1 + l2) {
                if l1 <= cap_left && i < l1 && init[i] != w1[i] {
                    ok = false;
                }
            }
        }
        (n, e, ok)
    });
    assert!(init_ok);
    assert!(v.len() == pre + n);
    for i in 0..pre {
        assert!(v[i] == 0xA0 + i as u8);
    }
    if l1 <= cap_left && l2 <= cap_left - l1 {
        for i in 0..n {
            assert!(v[pre + i] == expect[i]);
        }
    }
}

pub fn contract_arrayvec(pre: usize, w1: [u8; 3], l1: usize, w2: [u8; 3], l2: usize) {
    if pre > 2 || l1 > 3 || l2 > 3 {
        return;
    }
    let mut v: arrayvec::ArrayVec<[u8; 4]> = arrayvec::ArrayVec::new();
    for i in 0..pre {
        v.push(0xA0 + i as u8);
    }
    let cap_left = 4 - pre;
    let (n, expect) = with_buffer(&mut v, |mut b| {
        let r = script(&mut b, &w1[..l1], &w2[..l2], cap_left);
        assert!(b.initialized().len() == r.0);
        r
    });
    assert!(v.len() == pre + n);
    assert!(v.len() <= 4);
    for i in 0..pre {
        assert!(v[i] == 0xA0 + i as u8);
    }
    if l1 <= cap_left && l2 <= cap_left - l1 {
        for i in 0..n {
            assert!(v[pre + i] == expect[i]);
        }
    }
}

pub fn contract_slice(cap: usize, w1: [u8; 3], l1: usize, w2: [u8; 3], l2: usize) {
    if cap > 4 || l1 > 3 || l2 > 3 {
        return;
    }
    let mut backing = [0x55u8; 6];
    let (n, expect) = {
        let (front, _guard) = backing.split_at_mut(cap);
        with_buffer(front, |mut b| {
            let r = script(&mut b, &w1[..l1], &w2[..l2], cap);
            let init = b.initialized();
            assert!(init.len() == r.0);
            r
        })
    };
    // nothing past the slice handed in was touched
    for i in cap..6 {
        assert!(backing[i] == 0x55);
    }
    if l1 <= cap && l2 <= cap - l1 {
        for i in 0..n {
            assert!(backing[i] == expect[i]);
        }
    }
}

/// slice reference (`&mut &mut [u8]`): like the slice, and on release the referenced slice shrinks to exactly the
/// initialized prefix -- also when nothing was written (view dropped unused).  The slice variable stays borrowed for
/// its whole lifetime in safe code, so it is observed through a raw pointer afterwards.
pub fn contract_slice_ref(cap: usize, w1: [u8; 3], l1: usize, w2: [u8; 3], l2: usize, use_it: bool) {
    if cap > 4 || l1 > 3 || l2 > 3 {
        return;
    }
    let mut backing = [0x55u8; 6];
    let after_len;
    let n;
    {
        let (front, _guard) = backing.split_at_mut(cap);
        let mut slice: &mut [u8] = front;
        let p: *mut &mut [u8] = &mut slice;
        n = {
            let r: &mut &mut [u8] = unsafe { &mut *p };
            with_buffer(r, |mut b| {
                if !use_it {
                    return 0;
                }
                let r = script(&mut b, &w1[..l1], &w2[..l2], cap);
                assert!(b.initialized().len() == r.0);
                r.0
            })
        };
        after_len = unsafe { (&*p).len() };
    }
    assert!(after_len == n);
    for i in cap..6 {
        assert!(backing[i] == 0x55);
    }
}

/// nested view (&mut BufferRef as Buffer) and capped view (cap_at): the parent's count grows by what the child wrote,
/// the cap limits the child.
pub fn contract_nested_capped(cap: usize, at: usize, w1: [u8; 3], l1: usize, w2: [u8; 3], l2: usize) {
    if cap > 4 || at > 4 || l1 > 3 || l2 > 3 || at > cap {
        return;
    }
    let mut backing = [0x55u8; 6];
    {
        let (front, _guard) = backing.split_at_mut(cap);
        with_buffer(front, |mut parent| {
            let before = parent.remaining();
            let written = with_buffer((&mut parent).cap_at(at), |mut child| {
                let (n, _) = script(&mut child, &w1[..l1], &w2[..l2], at);
                n
            });
            assert!(written <= at);
            assert!(parent.remaining() == before - written);
            assert!(parent.initialized().len() == written);
        });
    }
    for i in cap..6 {
        assert!(backing[i] == 0x55);
    }
}

/// SAMPLED contract (C19) of the defensive check in the `unsafe fn advance`: an advance that would move the initialized mark past
/// the end of the view -- also after part of it was already filled -- must be refused (panic), never accepted; one that fits moves
/// the mark by exactly that amount
#[cfg(not(kani))]
pub fn contract_advance_guard(cap: usize, written: usize, n: usize) {
    let mut store = [0u8; 8];
    let fits = written + n <= cap;
    let returned = std::cell::Cell::new(false);
    let r = std::panic::catch_unwind(std::panic::AssertUnwindSafe(|| {
        with_buffer(&mut store[..cap], |mut b: BufferRef| {
            b.write(&[7u8; 8][..written]).unwrap();
            unsafe { b.advance(n) };
            returned.set(true);
            if fits { b.initialized().len() } else { 0 }
        })
    }));
    assert!(returned.get() == fits, "advance past the end of the buffer was accepted, or one inside it refused");
    if let Ok(len) = r {
        if fits {
            assert!(len == written + n);
        }
    }
}

pub mod proofs {
    use super::draw;
    use super::draw::harness;
    use super::*;
    harness!(bounded_buffer_vec, unwind = 6, {
        let pre = draw::usize();
        let extra = draw::usize();
        let w1 = draw::bytes::<3>();
        let l1 = draw::usize();
        let w2 = draw::bytes::<3>();
        let l2 = draw::usize();
        draw::assume(pre <= 2 && extra <= 4 && l1 <= 3 && l2 <= 3);
        draw::reached();
        contract_vec(pre, extra, w1, l1, w2, l2);
    });
    harness!(bounded_buffer_arrayvec, unwind = 6, {
        let pre = draw::usize();
        let w1 = draw::bytes::<3>();
        let l1 = draw::usize();
        let w2 = draw::bytes::<3>();
        let l2 = draw::usize();
        draw::assume(pre <= 2 && l1 <= 3 && l2 <= 3);
        draw::reached();
        contract_arrayvec(pre, w1, l1, w2, l2);
    });
    harness!(bounded_buffer_slice, unwind = 8, {
        let cap = draw::usize();
        let w1 = draw::bytes::<3>();
        let l1 = draw::usize();
        let w2 = draw::bytes::<3>();
        let l2 = draw::usize();
        draw::assume(cap <= 4 && l1 <= 3 && l2 <= 3);
        draw::reached();
        contract_slice(cap, w1, l1, w2, l2);
    });
    harness!(bounded_buffer_slice_ref, unwind = 8, {
        let cap = draw::usize();
        let w1 = draw::bytes::<3>();
        let l1 = draw::usize();
        let w2 = draw::bytes::<3>();
        let l2 = draw::usize();
        let use_it = draw::bool();
        draw::assume(cap <= 4 && l1 <= 3 && l2 <= 3);
        draw::reached();
        contract_slice_ref(cap, w1, l1, w2, l2, use_it);
    });
    harness!(bounded_buffer_nested_capped, unwind = 8, {
        let cap = draw::usize();
        let at = draw::usize();
        let w1 = draw::bytes::<3>();
        let l1 = draw::usize();
        let w2 = draw::bytes::<3>();
        let l2 = draw::usize();
        draw::assume(cap <= 4 && at <= cap && l1 <= 3 && l2 <= 3);
        draw::reached();
        contract_nested_capped(cap, at, w1, l1, w2, l2);
    });
    #[cfg(not(kani))]
    harness!(sampled_buffer_advance_guard, unwind = 1, {
        let cap = draw::usize_le(8);
        let written = draw::usize_le(cap);
        let n = draw::usize_le(9);
        draw::reached();
        contract_advance_guard(cap, written, n);
    });
}
