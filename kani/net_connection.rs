// Contract harnesses for the sequence-number arithmetic of net/src/connection.rs (C01).
// Compiled as a child module of `connection` (hook at the end of connection.rs);
// the same text is included from connection7.rs (0.7 variant has its own copy of the code).
use super::*;

#[path = "/verif/kani/draw.rs"]
mod draw;

#[cfg(not(kani))]
#[path = "/verif/kani/net_sim.rs"]
mod sim;
#[cfg(not(kani))]
fn is_connecting(c: &Connection) -> bool {
    matches!(c.state, State::Connecting)
}

#[cfg(not(kani))]
/// C04: the datagram is accepted by the library's own reader without a warning and carries as many chunks as it announces
fn wire_clean(data: &[u8]) -> bool {
    use crate::protocol::{ChunksIter, ConnectedPacket, ConnectedPacketType as T, Packet as P};
    for hint in [Some(true), Some(false)] {
        let _ = hint;
        let mut buf = [0u8; 2048];
        let mut w = sim::Sink(0);
        if let Ok(p) = P::read(&mut w, data, hint, &mut buf[..]) {
            if w.0 != 0 {
                continue;
            }
            if let P::Connected(ConnectedPacket { type_: T::Chunks(_, n, payload), .. }) = p {
                let mut it = ChunksIter::new(payload, n);
                let mut cnt = 0usize;
                while let Some(_) = it.next_warn(&mut w) {
                    cnt += 1;
                }
                if w.0 != 0 || cnt != n as usize {
                    continue;
                }
            }
            return true;
        }
    }
    false
}

const M: u16 = 1 << 10;

/// contract Sequence::compare(self, other), requires both < 1024:
///   Current iff equal; Future iff 0 < (other - self) mod 1024 < 512; Past otherwise.
pub fn contract_compare(a: u16, b: u16) {
    let sa = Sequence::from_u16(a);
    let sb = Sequence::from_u16(b);
    let d = (b + M - a) % M;
    let r = sa.compare(sb);
    if d == 0 {
        assert!(r == SequenceOrdering::Current);
    } else if d < M / 2 {
        assert!(r == SequenceOrdering::Future);
    } else {
        assert!(r == SequenceOrdering::Past);
    }
}

/// contract Sequence::next: requires seq < 1024; ensures result == self' == (seq + 1) mod 1024 (< 1024).
pub fn contract_next(a: u16) {
    let mut s = Sequence::from_u16(a);
    let r = s.next();
    assert!(r.to_u16() == (a + 1) % M);
    assert!(s.to_u16() == (a + 1) % M);
    assert!(s.to_u16() < M);
}

/// contract Sequence::update(&mut self, other):
///   returns Current and self' == other  iff other == (self + 1) mod 1024;
///   otherwise self unchanged and the result is compare(self + 1, other) != Current.
pub fn contract_update(a: u16, b: u16) {
    let mut s = Sequence::from_u16(a);
    let r = s.update(Sequence::from_u16(b));
    let expected = (a + 1) % M;
    if b == expected {
        assert!(r == SequenceOrdering::Current);
        assert!(s.to_u16() == b);
    } else {
        assert!(r != SequenceOrdering::Current);
        assert!(s.to_u16() == a);
        let d = (b + M - expected) % M;
        assert!((r == SequenceOrdering::Future) == (d < M / 2));
    }
}

/// window lemma instance used by the C01 composition argument: for true
/// indices k (of an arriving chunk) and n = ack + 1 (next expected) with
/// |k - n| < 512, the 10-bit comparison decides k == n exactly, and a
/// retransmission of something already delivered (k < n) is never `Current`.
pub fn contract_window(n: u32, k: u32) {
    let diff = if k > n { k - n } else { n - k };
    if diff >= 512 || n == 0 || n > (1 << 20) || k > (1 << 20) {
        return;
    }
    let mut ack = Sequence::from_u16(((n - 1) % 1024) as u16);
    let r = ack.update(Sequence::from_u16((k % 1024) as u16));
    assert!((r == SequenceOrdering::Current) == (k == n));
    if k == n {
        assert!(ack.to_u16() as u32 == n % 1024);
    }
}

/// SAMPLED contract of OnlineState::ack_chunks on long resend queues (the Verus unit proves it for every queue, but the predicate of
/// the `position` adapter is part of a substitution there, so a changed predicate is a lost anchor): the queue holds consecutive
/// sequence numbers, newest first; afterwards it is exactly the part in front of the entry whose sequence number IS `ack`, or
/// unchanged if there is none -- also when 512 or more chunks are waiting
#[cfg(not(kani))]
pub fn contract_ack_chunks(len: usize, newest: u16, ack: u16) {
    let mut cb = sim::Cb { out: Vec::new(), now_us: 1_000_000, rng: 1, fail: 0 };
    let mut o = OnlineState::new(None);
    for i in 0..len {
        // entry i (from the front) carries sequence newest - i
        let s = Sequence::from_u16((newest + M - (i as u16 % M)) % M);
        o.resend_queue.push_back(ResendChunk::new(&mut cb, s, &[i as u8, (i >> 8) as u8]));
    }
    let before: Vec<u16> = o.resend_queue.iter().map(|c| c.sequence.to_u16()).collect();
    o.ack_chunks(Sequence::from_u16(ack));
    let after: Vec<u16> = o.resend_queue.iter().map(|c| c.sequence.to_u16()).collect();
    let cut = before.iter().position(|&s| s == ack).unwrap_or(before.len());
    assert!(after == before[..cut], "ack_chunks: the queue is not cut exactly at the acknowledged entry");
    for (i, c) in o.resend_queue.iter().enumerate() {
        assert!(&c.data[..] == &[i as u8, (i >> 8) as u8], "ack_chunks: a queued chunk changed");
    }
}

pub mod proofs {
    use super::draw;
    use super::draw::harness;
    use super::*;
    harness!(complete_seq_compare_v6, {
        let a = draw::u16();
        let b = draw::u16();
        draw::assume(a < M && b < M);
        draw::reached();
        contract_compare(a, b);
    });
    harness!(complete_seq_next_v6, {
        let a = draw::u16();
        draw::assume(a < M);
        draw::reached();
        contract_next(a);
    });
    harness!(complete_seq_update_v6, {
        let a = draw::u16();
        let b = draw::u16();
        draw::assume(a < M && b < M);
        draw::reached();
        contract_update(a, b);
    });
    harness!(complete_seq_window_v6, {
        let n = draw::u32();
        let k = draw::u32();
        draw::reached();
        contract_window(n, k);
    });
    // ---- sampled (native PRNG driver only; never counted as proved): two endpoints and a lossy network ----
    #[cfg(not(kani))]
    harness!(sampled_conn_two_endpoints_v6, unwind = 1, {
        let ops = super::sim::draw_ops(60);
        let settle = draw::usize_le(3) != 0;
        draw::reached();
        super::sim::simulate(&ops, settle);
    });

    #[cfg(not(kani))]
    harness!(sampled_ack_chunks_v6, unwind = 1, {
        let len = [0usize, 1, 2, 3, 511, 512, 513, 600, 1023][draw::usize_le(8)];
        let newest = draw::u16() & 0x3ff;
        // an ack inside the queue, just outside it, or anywhere
        let ack = match draw::usize_le(2) {
            0 => (newest + super::M - (draw::usize_le(1023) as u16 % super::M)) % super::M,
            1 => (newest + 1 + draw::usize_le(3) as u16) % super::M,
            _ => draw::u16() & 0x3ff,
        };
        draw::reached();
        contract_ack_chunks(len, newest, ack);
    });
}
