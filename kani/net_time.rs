// Contract harnesses for net/src/time.rs (C02): ordering of Timeout values.
use super::*;

#[path = "/verif/kani/draw.rs"]
mod draw;

/// contract Timeout::{active,inactive,to_opt,is_active}, all u64 micro-second values:
///  - inactive() is greater than every active(t) with t not the sentinel, so
///    min(send, resend) used by needs_tick is active whenever one of them is;
///  - active(t).to_opt() == Some(t), inactive().to_opt() == None;
///  - ordering of active values is the ordering of their timestamps.
pub fn contract_timeout_order(a: u64, b: u64) {
    let sentinel = Timestamp::sentinel().as_usecs_since_epoch();
    if a == sentinel || b == sentinel {
        return;
    }
    let ta = Timeout::active(Timestamp::from_usecs_since_epoch(a));
    let tb = Timeout::active(Timestamp::from_usecs_since_epoch(b));
    let inactive = Timeout::inactive();
    assert!(ta.is_active() && tb.is_active() && !inactive.is_active());
    assert!(ta.to_opt() == Some(Timestamp::from_usecs_since_epoch(a)));
    assert!(inactive.to_opt().is_none());
    assert!(ta < inactive && tb < inactive);
    assert!((ta <= tb) == (a <= b));
    assert!(std::cmp::min(ta, inactive) == ta);
    assert!(std::cmp::min(inactive, tb) == tb);
    let m = std::cmp::min(ta, tb);
    assert!(m.is_active());
    assert!(m.to_opt().unwrap().as_usecs_since_epoch() == if a <= b { a } else { b });
    assert!(Timeout::default() == inactive);
}

/// contract Timestamp + Duration: requires no overflow (clock below 2^62 us, duration <= 2^32 s);
/// ensures result >= self, result is not the sentinel, rounds sub-microsecond up.
pub fn contract_timestamp_add(t: u64, secs: u64, nanos: u32) {
    if t >= (1 << 62) || secs > (1 << 32) || nanos >= 1_000_000_000 {
        return;
    }
    let ts = Timestamp::from_usecs_since_epoch(t);
    let r = ts + std::time::Duration::new(secs, nanos);
    let us = r.as_usecs_since_epoch();
    assert!(us == t + secs * 1_000_000 + ((nanos as u64 + 999) / 1000));
    assert!(r >= ts);
    assert!(us != Timestamp::sentinel().as_usecs_since_epoch());
}

pub mod proofs {
    use super::draw;
    use super::draw::harness;
    use super::*;
    harness!(complete_timeout_order, {
        let a = draw::u64();
        let b = draw::u64();
        draw::reached();
        contract_timeout_order(a, b);
    });
    harness!(complete_timestamp_add, {
        let t = draw::u64();
        let s = draw::u64();
        let n = draw::u32();
        draw::reached();
        contract_timestamp_add(t, s, n);
    });
}
