// Contract harnesses for datafile/src/format.rs (C16): header checks and size arithmetic, item header packing.
use super::*;

#[path = "/verif/kani/draw.rs"]
mod draw;

/// contract HeaderRest::check + Header::{calculate_total_size, check_size_and_swaplen}, all seven i32 fields x version 3/4:
///   check() is Ok iff every field is >= 0 and size_items is a multiple of 4;
///   after a successful check none of the later computations panics (assert_u64 / assert_u32 / i32 arithmetic),
///   and an accepted header's expected_size is the sum of the section sizes.
pub fn contract_header(version: i32, size: i32, swaplen: i32, nt: i32, ni: i32, nd: i32, si: i32, sd: i32) {
    if version != 3 && version != 4 {
        return;
    }
    let hr = HeaderRest {
        size,
        swaplen,
        num_item_types: nt,
        num_items: ni,
        num_data: nd,
        size_items: si,
        size_data: sd,
    };
    let ok = hr.check().is_ok();
    let all_nonneg = size >= 0 && swaplen >= 0 && nt >= 0 && ni >= 0 && nd >= 0 && si >= 0 && sd >= 0;
    assert!(ok == (all_nonneg && si % 4 == 0));
    if !ok {
        return;
    }
    let h = Header {
        hv: HeaderVersion { magic: *b"DATA", version },
        hr,
    };
    assert!(h.hv.check().is_ok());
    // must not panic; when accepted the total is the documented sum
    if let Ok(r) = h.check_size_and_swaplen() {
        let total: u64 = 36
            + 12 * nt as u64
            + 4 * ni as u64
            + 4 * nd as u64
            + if version >= 4 { 4 * nd as u64 } else { 0 }
            + si as u64
            + sd as u64;
        assert!(r.expected_size as u64 == total);
        assert!(total <= i32::MAX as u64);
    }
    // the later `relative_size_of_mult::<u8, i32>(size_items as usize)` cannot fail
    assert!((si as usize) % 4 == 0);
}

/// contract ItemHeader::{new, type_id, id, set_type_id_and_id}: packing is inverse for all u16 x u16
pub fn contract_item_header(t: u16, id: u16, size: i32, raw: i32) {
    let h = ItemHeader::new(t, id, size);
    assert!(h.type_id() == t && h.id() == id && h.size == size);
    let h2 = ItemHeader { type_id_and_id: raw, size };
    let h3 = ItemHeader::new(h2.type_id(), h2.id(), size);
    assert!(h3.type_id_and_id == raw);
}

pub mod proofs {
    use super::draw;
    use super::draw::harness;
    use super::*;
    harness!(complete_df_header, {
        let v = draw::i32();
        let a = draw::i32();
        let b = draw::i32();
        let c = draw::i32();
        let d = draw::i32();
        let e = draw::i32();
        let f = draw::i32();
        let g = draw::i32();
        draw::assume(v == 3 || v == 4);
        draw::reached();
        contract_header(v, a, b, c, d, e, f, g);
    });
    harness!(complete_df_item_header, {
        let t = draw::u16();
        let id = draw::u16();
        let size = draw::i32();
        let raw = draw::i32();
        draw::reached();
        contract_item_header(t, id, size, raw);
    });
    // ---- sampled (native PRNG driver only; never counted as proved) ----
    #[cfg(not(kani))]
    harness!(sampled_df_wellformed, unwind = 1, {
        use super::dfgen::*;
        let version = if draw::bool() { 3 } else { 4 };
        let types = [0u16, 1, 2, 5, 0x7fff, 0xffff];
        let nt = draw::usize_le(6);
        let items = super::sampled_gen::draw_items(&types[..nt], 4, &|_, _| (0..draw::usize_le(6)).map(|_| draw::i32()).collect());
        let data = super::sampled_gen::draw_blocks(5);
        draw::reached();
        super::sampled::contract_wellformed(version, &items, &data);
        let _: Option<DfItem> = None;
    });
    #[cfg(not(kani))]
    harness!(sampled_df_corrupt_total, unwind = 1, {
        use super::dfgen::*;
        let version = if draw::bool() { 3 } else { 4 };
        let types = [0u16, 1, 2, 5, 0x7fff, 0xffff];
        let nt = draw::usize_le(6);
        let items = super::sampled_gen::draw_items(&types[..nt], 3, &|_, _| (0..draw::usize_le(4)).map(|_| draw::i32()).collect());
        let data = super::sampled_gen::draw_blocks(4);
        let (mut bytes, lay) = write_datafile(version, &items, &data);
        super::sampled_gen::corrupt(&mut bytes, &lay);
        draw::reached();
        super::sampled::contract_traverse(&bytes);
    });
    #[cfg(not(kani))]
    harness!(sampled_df_random_bytes, unwind = 1, {
        // random bytes behind a plausible version header
        let mut bytes = b"DATA".to_vec();
        bytes.extend_from_slice(&(if draw::bool() { 3i32 } else { 4i32 }).to_le_bytes());
        for _ in 0..draw::usize_le(40) {
            bytes.extend_from_slice(&draw::i32().to_le_bytes());
        }
        draw::reached();
        super::sampled::contract_traverse(&bytes);
    });

}

// ---- sampled contracts over the file-level datafile reader (C16): native PRNG driver only ---------------------------
// The Verus unit df_reader proves Reader::check and the accessors under its representation invariant; file I/O
// callbacks, zlib and the iterators are outside.  These bodies state the property end to end ("open any file and call
// everything"; "a well-formed file is returned exactly") on files from an independent writer (kani/dfgen.rs).
#[cfg(not(kani))]
#[path = "/verif/kani/dfgen.rs"]
pub mod dfgen;

#[cfg(not(kani))]
pub mod sampled {
    use super::dfgen::*;
    use crate::Reader;

    /// everything the reader exposes returns values or errors; cross-checks that must hold for every ACCEPTED file
    pub fn traverse(r: &mut Reader) {
        let _ = r.version();
        let ni = r.num_items();
        let nd = r.num_data();
        let nt = r.num_item_types();
        assert!(r.items().count() == ni, "items() yields num_items items");
        assert!(r.item_types().count() == nt);
        let mut seen = 0usize;
        for i in 0..ni {
            let it = r.item(i);
            let (t, id, len) = (it.type_id, it.id, it.data.len());
            seen += len;
            let f = r.find_item(t, id).expect("an existing item is found by its type and id");
            assert!(f.type_id == t && f.id == id, "find_item returns the asked type and id");
        }
        let _ = seen;
        for k in 0..nt {
            let t = r.item_type(k);
            let range = r.item_type_indices(t);
            assert!(range.start <= range.end && range.end <= ni, "item type range inside the items");
            assert!(r.item_type_items(t).count() == range.len());
        }
        // a type id that does not occur has an empty range
        let _ = r.item_type_indices(0xfffe).len();
        let _ = r.find_item(0xfffe, 0);
        for d in 0..nd {
            let _ = r.read_data(d);
        }
        let n = r.data_iter().count();
        assert!(n == nd);
        let _ = r.debug_dump();
    }
    pub fn contract_traverse(bytes: &[u8]) {
        let f = TempFile::new(bytes);
        if let Ok(mut r) = Reader::open(&f.0) {
            traverse(&mut r);
        }
    }
    /// a well-formed file is accepted and returns exactly the stored items and (decompressed) data, versions 3 and 4
    pub fn contract_wellformed(version: i32, items: &[DfItem], data: &[Vec<u8>]) {
        let (bytes, _) = write_datafile(version, items, data);
        let f = TempFile::new(&bytes);
        let mut r = match Reader::open(&f.0) {
            Ok(r) => r,
            Err(e) => panic!("well-formed file refused: {:?}", e),
        };
        assert!(r.num_items() == items.len() && r.num_data() == data.len());
        for (i, it) in items.iter().enumerate() {
            let v = r.item(i);
            assert!(v.type_id == it.type_id && v.id == it.id && v.data == &it.data[..], "item differs");
        }
        for (i, d) in data.iter().enumerate() {
            let got = r.read_data(i).expect("stored data block unreadable");
            assert!(&got == d, "data block differs");
        }
        traverse(&mut r);
    }
}

#[cfg(not(kani))]
pub mod sampled_gen {
    use super::dfgen::*;
    use super::draw;
    /// items grouped by type; ids unique inside a type; lengths 0..6
    pub fn draw_items(types: &[u16], max_per_type: usize, data_for: &dyn Fn(u16, usize) -> Vec<i32>) -> Vec<DfItem> {
        let mut v = Vec::new();
        for &t in types {
            let n = draw::usize_le(max_per_type);
            for k in 0..n {
                v.push(DfItem { type_id: t, id: k as u16, data: data_for(t, k) });
            }
        }
        v
    }
    pub fn draw_blocks(max: usize) -> Vec<Vec<u8>> {
        (0..draw::usize_le(max))
            .map(|_| {
                let n = [0, 1, 3, 4, 8, 16, 64][draw::usize_le(6)] + draw::usize_le(3);
                let mode = draw::usize_le(2);
                (0..n).map(|i| match mode { 0 => 0u8, 1 => i as u8, _ => draw::u8() }).collect()
            })
            .collect()
    }
    /// single-field corruptions with boundary values, truncation, garbage in the data section
    pub fn corrupt(bytes: &mut Vec<u8>, lay: &Layout) {
        for _ in 0..draw::usize_le(2) {
            let section = draw::usize_le(6);
            let (lo, hi) = match section {
                0 => (lay.header, lay.item_types),
                1 => (lay.item_types, lay.item_offsets),
                2 => (lay.item_offsets, lay.data_offsets),
                3 => (lay.data_offsets, lay.data_sizes),
                4 => (lay.data_sizes, lay.items),
                5 => (lay.items, lay.data),
                _ => (lay.data, bytes.len()),
            };
            if hi <= lo {
                continue;
            }
            if section == 6 {
                let p = lo + draw::usize_le(hi - lo - 1);
                bytes[p] = draw::u8();
                continue;
            }
            let words = (hi - lo) / 4;
            if words == 0 {
                continue;
            }
            let p = lo + 4 * draw::usize_le(words - 1);
            let old = i32::from_le_bytes([bytes[p], bytes[p + 1], bytes[p + 2], bytes[p + 3]]);
            let len = bytes.len() as i32;
            let v: i32 = match draw::usize_le(15) {
                0 => 0,
                1 => 1,
                2 => -1,
                3 => i32::MIN,
                4 => i32::MAX,
                5 => old.wrapping_add(1),
                6 => old.wrapping_sub(1),
                7 => old.wrapping_add(4),
                8 => old.wrapping_sub(4),
                9 => old.wrapping_add(2),
                10 => len,
                11 => len - (lay.data as i32),
                12 => 0x10000,
                13 => 0xffff,
                14 => old.wrapping_mul(2),
                _ => draw::i32(),
            };
            bytes[p..p + 4].copy_from_slice(&v.to_le_bytes());
        }
        if draw::usize_le(3) == 0 {
            let cut = draw::usize_le(bytes.len());
            bytes.truncate(cut);
        }
    }
}
