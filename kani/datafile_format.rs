// Contract harnesses for datafile/src/format.rs (C16): header checks and size arithmetic, item header packing.
use super::*;

#[path = "/verif/kani/draw.rs"]
mod draw;

/// contract HeaderRest::check + Header::{calculate_total_size, check_size_and_swaplen}, all seven i32 fields x version 3/4:
///   check() is Ok iff every field is >= 0 and size_items is a multiple of 4;
///   after a successful check none of the later computations panics (assert_u64 / assert_u32 / i32 arithmetic),
///   and an accepted header's expected_size is the sum of the section sizes.
pub fn contract_header(version: i32, size: i32, swaplen: i32, nt: i32, ni: i32, nd: i32, si: i32, sd: i32) {
    if version != 3 && version != 4 {
        return;
    }
    let hr = HeaderRest {
        size,
        swaplen,
        num_item_types: nt,
        num_items: ni,
        num_data: nd,
        size_items: si,
        size_data: sd,
    };
    let ok = hr.check().is_ok();
    let all_nonneg = size >= 0 && swaplen >= 0 && nt >= 0 && ni >= 0 && nd >= 0 && si >= 0 && sd >= 0;
    assert!(ok == (all_nonneg && si % 4 == 0));
    if !ok {
        return;
    }
    let h = Header {
        hv: HeaderVersion { magic: *b"DATA", version },
        hr,
    };
    assert!(h.hv.check().is_ok());
    // must not panic; when accepted the total is the documented sum
    if let Ok(r) = h.check_size_and_swaplen() {
        let total: u64 = 36
            + 12 * nt as u64
            + 4 * ni as u64
            + 4 * nd as u64
            + if version >= 4 { 4 * nd as u64 } else { 0 }
            + si as u64
            + sd as u64;
        assert!(r.expected_size as u64 == total);
        assert!(total <= i32::MAX as u64);
    }
    // the later `relative_size_of_mult::<u8, i32>(size_items as usize)` cannot fail
    assert!((si as usize) % 4 == 0);
}

/// contract ItemHeader::{new, type_id, id, set_type_id_and_id}: packing is inverse for all u16 x u16
pub fn contract_item_header(t: u16, id: u16, size: i32, raw: i32) {
    let h = ItemHeader::new(t, id, size);
    assert!(h.type_id() == t && h.id() == id && h.size == size);
    let h2 = ItemHeader { type_id_and_id: raw, size };
    let h3 = ItemHeader::new(h2.type_id(), h2.id(), size);
    assert!(h3.type_id_and_id == raw);
}

pub mod proofs {
    use super::draw;
    use super::draw::harness;
    use super::*;
    harness!(complete_df_header, {
        let v = draw::i32();
        let a = draw::i32();
        let b = draw::i32();
        let c = draw::i32();
        let d = draw::i32();
        let e = draw::i32();
        let f = draw::i32();
        let g = draw::i32();
        draw::assume(v == 3 || v == 4);
        draw::reached();
        contract_header(v, a, b, c, d, e, f, g);
    });
    harness!(complete_df_item_header, {
        let t = draw::u16();
        let id = draw::u16();
        let size = draw::i32();
        let raw = draw::i32();
        draw::reached();
        contract_item_header(t, id, size, raw);
    });
}
