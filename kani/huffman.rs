// Contract harnesses for libtw2-huffman (C07).
//   complete_*  : full domain (all node/symbol encodings; every node and symbol of the built-in table)
//   bounded_*   : chosen bound on the input LENGTH (stated per harness); codes/tables symbolic where noted
// The functional contracts of compress_impl_unsafe / decompress_unsafe and the round trip are proved unbounded by
// the Verus unit `huff`; Kani runs of those functions (<= 1 byte!) did not finish in 25 minutes and were removed.
use super::*;

#[path = "/verif/kani/draw.rs"]
mod draw;

/// contract Node::to_symbol_repr / SymbolRepr::to_node: mutually inverse (bits < 2^24 required by to_node's assert)
pub fn contract_node_repr(a: u16, b: u16, bits: u32, num_bits: u8) {
    let n = Node { children: [a, b] };
    assert!(n.to_symbol_repr().to_node() == n);
    if bits >> 24 == 0 {
        let s = SymbolRepr { bits, num_bits };
        assert!(s.to_node().to_symbol_repr() == s);
    }
}

/// contract on the built-in table (instances::TEEWORLDS), one inner node index at a time:
///   both children are smaller than the node (so every walk from the root ends) and inside the table.
pub fn contract_table_inner_node(idx: u16) {
    if !(NUM_SYMBOLS <= idx && (idx as usize) < NUM_NODES) {
        return;
    }
    let t = &instances::TEEWORLDS;
    let n = t.get_node(idx).unwrap();
    assert!(n.children[0] < idx && n.children[1] < idx);
}
/// ... one symbol at a time: 1 <= num_bits <= 24, no stray bits, and walking the tree from the root along the
/// stored bits (LSB first) arrives exactly at that symbol (decode(encode(s)) == s; prefix-freeness follows from
/// tree addressing).
pub fn contract_table_symbol(sym: u16) {
    if sym >= NUM_SYMBOLS {
        return;
    }
    let t = &instances::TEEWORLDS;
    let repr = t.get_node(sym).unwrap_err();
    assert!(1 <= repr.num_bits && repr.num_bits <= 24);
    assert!(repr.bits >> repr.num_bits == 0);
    let mut idx = ROOT_IDX;
    let mut i = 0u32;
    while i < 24 {
        if i < repr.num_bits as u32 {
            let node = t.get_node(idx).unwrap(); // must still be an inner node
            idx = node.children[((repr.bits >> i) & 1) as usize];
        }
        i += 1;
    }
    assert!(idx == sym);
}

/// contract compressed_len / compressed_len_bug for an ARBITRARY table (symbolic code lengths for the symbols
/// used), input of <= 2 bytes: the sum of the code lengths of the input symbols plus the EOF code, rounded up to
/// bytes (`bug` form: /8 + 1).  Stand-in for the Verus contract of compressed_bit_len (iterator map/fold).
pub fn contract_compressed_len(table: &mut Huffman, ilen: usize, lens: [u8; 3]) {
    if ilen > 2 {
        return;
    }
    let input = [0x41u8, 0x42u8];
    let mut total_bits = 0usize;
    for k in 0..=ilen {
        let sym = if k < ilen { input[k] as u16 } else { EOF };
        table.nodes[sym as usize] = SymbolRepr { bits: 0, num_bits: lens[k] }.to_node();
        total_bits += lens[k] as usize;
    }
    assert!(table.compressed_len(&input[..ilen]) == (total_bits + 7) / 8);
    assert!(table.compressed_len_bug(&input[..ilen]) == total_bits / 8 + 1);
}

/// bit i (0-based, LSB-first inside each byte) of a byte string
fn bit_at(b: &[u8], i: usize) -> bool {
    (b[i / 8] >> (i % 8)) & 1 != 0
}

/// contract compress_impl_unsafe for an ARBITRARY table (symbolic codes for the symbols used), input of <= 2 bytes:
///   the output is the concatenation, LSB first, of the codes of the input symbols followed by the EOF code,
///   zero-padded to a whole byte (`bug` form: one more byte when the stream ends on a byte boundary);
///   Ok(len) with len == ceil(bits/8) (+ bug rule) <= buffer length, Err when the buffer is too short;
///   compressed_len / compressed_len_bug predict that length.
pub fn contract_compress_bits(
    table: &mut Huffman,
    input: [u8; 2],
    ilen: usize,
    codes: [(u32, u8); 3],
    cap: usize,
    bug: bool,
) {
    if ilen > 2 || cap > 12 {
        return;
    }
    // install symbolic codes for the symbols that occur (same symbol twice -> same code)
    let mut syms = [EOF; 3];
    for k in 0..ilen {
        syms[k] = input[k] as u16;
    }
    syms[ilen] = EOF;
    for k in 0..=ilen {
        let (bits, nb) = codes[k];
        if !(1 <= nb && nb <= 24 && bits >> nb == 0) {
            return;
        }
        if k == 1 && syms[1] == syms[0] && codes[1] != codes[0] {
            return;
        }
        table.nodes[syms[k] as usize] = SymbolRepr { bits, num_bits: nb }.to_node();
    }
    let mut total_bits = 0usize;
    for k in 0..=ilen {
        total_bits += codes[k].1 as usize;
    }
    let want_len = if bug { total_bits / 8 + 1 } else { (total_bits + 7) / 8 };
    assert!(table.compressed_len(&input[..ilen]) == (total_bits + 7) / 8);
    assert!(table.compressed_len_bug(&input[..ilen]) == total_bits / 8 + 1);
    let mut out = [0xAAu8; 12];
    let r = table.compress_impl_unsafe(&input[..ilen], &mut out[..cap], bug);
    if want_len > cap {
        assert!(r.is_err());
        return;
    }
    assert!(r == Ok(want_len));
    // nothing past the reported length was written
    for j in 0..12 {
        if j >= want_len {
            assert!(out[j] == 0xAA);
        }
    }
    // bit-exact content
    let mut pos = 0usize;
    for k in 0..=ilen {
        let (bits, nb) = codes[k];
        let mut i = 0u32;
        while i < 24 {
            if i < nb as u32 {
                assert!(bit_at(&out, pos) == ((bits >> i) & 1 != 0));
                pos += 1;
            }
            i += 1;
        }
    }
    while pos < want_len * 8 {
        assert!(!bit_at(&out, pos));
        pos += 1;
    }
}

/// contract decompress_unsafe on ARBITRARY input bytes (built-in table), input <= N bytes, capacity <= C:
///   terminates, Ok(len) ==> len <= capacity, never writes past the capacity.
pub fn contract_decompress_total<const N: usize>(input: [u8; N], ilen: usize, cap: usize) {
    if ilen > N || cap > 3 {
        return;
    }
    let t = &instances::TEEWORLDS;
    let mut out = [0x55u8; 6];
    let r = t.decompress_unsafe(&input[..ilen], &mut out[..cap]);
    if let Ok(len) = r {
        assert!(len <= cap);
    }
    for j in cap..6 {
        assert!(out[j] == 0x55);
    }
}

/// the three table predicates of the Verus unit `huff` (inner_ok, codes_wf, codes_ok), executable
pub fn table_predicates_hold(t: &Huffman) -> bool {
    for idx in NUM_SYMBOLS..NUM_NODES as u16 {
        let n = t.get_node(idx).unwrap();
        if !(n.children[0] < idx && n.children[1] < idx) {
            return false;
        }
    }
    for sym in 0..NUM_SYMBOLS {
        let repr = t.get_node(sym).unwrap_err();
        if !(1 <= repr.num_bits && repr.num_bits <= 24 && repr.bits >> repr.num_bits == 0) {
            return false;
        }
        let mut idx = ROOT_IDX;
        for i in 0..repr.num_bits as u32 {
            match t.get_node(idx) {
                Ok(node) => idx = node.children[((repr.bits >> i) & 1) as usize],
                Err(_) => return false,
            }
        }
        if idx != sym {
            return false;
        }
    }
    true
}

/// contract (sampled only): a table built by from_frequencies_array from ANY frequency vector satisfies the table
/// predicates, and compress -> decompress with it is the identity for every capacity >= len (both forms), an error
/// below; compressed_len(_bug) is exact; trailing garbage after the stream does not matter.
#[cfg(not(kani))]
pub static BUILT: std::sync::atomic::AtomicUsize = std::sync::atomic::AtomicUsize::new(0);
#[cfg(not(kani))]
pub fn contract_freq_table_roundtrip(freqs: &[u32; 256], input: &[u8], cap: usize, bug: bool, trailing: &[u8]) {
    // from_frequencies_array panics (ArrayVec capacity / to_node assert) for vectors that need codes longer than 24
    // bits; no table exists then, which is outside this contract
    let t = match std::panic::catch_unwind(|| Huffman::from_frequencies_array(freqs)) {
        Ok(t) => t,
        Err(_) => return,
    };
    BUILT.fetch_add(1, std::sync::atomic::Ordering::Relaxed);
    assert!(table_predicates_hold(&t));
    contract_roundtrip_table(&t, input, cap, bug, trailing);
}
#[cfg(not(kani))]
pub fn contract_roundtrip_table(t: &Huffman, input: &[u8], cap: usize, bug: bool, trailing: &[u8]) {
    let mut comp: Vec<u8> = Vec::with_capacity(input.len() * 3 + 4 + trailing.len());
    let clen = {
        let c = if bug { t.compress_bug(input, &mut comp).unwrap() } else { t.compress(input, &mut comp).unwrap() };
        c.len()
    };
    assert!(clen == if bug { t.compressed_len_bug(input) } else { t.compressed_len(input) });
    // too small a buffer is refused
    if clen > 0 {
        let mut small = vec![0u8; clen - 1];
        let r = if bug { t.compress_bug(input, &mut small[..]) } else { t.compress(input, &mut small[..]) };
        assert!(r.is_err());
    }
    comp.extend_from_slice(trailing);
    let mut out = vec![0x55u8; cap + 4];
    let r = t.decompress_unsafe(&comp, &mut out[..cap]);
    if cap >= input.len() {
        assert!(r == Ok(input.len()));
        assert!(&out[..input.len()] == input);
    } else {
        assert!(r.is_err());
    }
    assert!(out[cap..].iter().all(|&b| b == 0x55));
}

/// contract (one concrete evaluation, no inputs): the built-in table is exactly what from_frequencies builds from the
/// frequency table shipped in huffman/data/frequencies -- the table the original implementation builds at start-up, so
/// this is the necessary condition for "reference-compatible output is byte-identical" that lives in this crate.
#[cfg(not(kani))]
pub fn contract_builtin_table_from_frequencies() {
    let text = include_str!(concat!(env!("CARGO_MANIFEST_DIR"), "/data/frequencies"));
    let freqs: Vec<u32> = text.split_whitespace().map(|l| l.parse::<u32>().unwrap()).collect();
    assert!(freqs.len() == 256);
    let built = Huffman::from_frequencies(&freqs);
    for i in 0..NUM_NODES {
        assert!(built.nodes[i] == instances::TEEWORLDS.nodes[i], "built-in table differs from from_frequencies(data/frequencies)");
    }
}

pub mod proofs {
    use super::draw;
    use super::draw::harness;
    use super::*;
    harness!(complete_huff_node_repr, {
        let a = draw::u16();
        let b = draw::u16();
        let bits = draw::u32();
        let nb = draw::u8();
        draw::reached();
        contract_node_repr(a, b, bits, nb);
    });
    harness!(complete_huff_table_inner_node, {
        let idx = draw::u16();
        draw::assume(NUM_SYMBOLS <= idx && (idx as usize) < NUM_NODES);
        draw::reached();
        contract_table_inner_node(idx);
    });
    harness!(complete_huff_table_symbol, unwind = 26, {
        let s = draw::u16();
        draw::assume(s < NUM_SYMBOLS);
        draw::reached();
        contract_table_symbol(s);
    });
    // symbols are fixed (0x41, 0x42, EOF) so that the table is written at constant indices; their code LENGTHS are
    // symbolic, which is all compressed_bit_len depends on
    harness!(bounded_huff_compressed_len, unwind = 5, {
        let mut table = Huffman { nodes: [NODE_SENTINEL; NUM_NODES] };
        let ilen = draw::usize();
        let lens = [draw::u8(), draw::u8(), draw::u8()];
        draw::assume(ilen <= 2);
        draw::reached();
        contract_compressed_len(&mut table, ilen, lens);
    });
    // ---- sampled (native PRNG driver only; never counted as proved) ----
    #[cfg(not(kani))]
    harness!(sampled_huff_builtin_table_from_frequencies_heavy, unwind = 1, {
        draw::reached();
        contract_builtin_table_from_frequencies();
    });
    #[cfg(not(kani))]
    harness!(sampled_huff_roundtrip_builtin, unwind = 1, {
        let input = draw::bytes::<12>();
        let ilen = draw::usize_le(12);
        let cap = draw::usize_le(14);
        let bug = draw::bool();
        let trailing = draw::bytes::<3>();
        let tlen = draw::usize_le(3);
        draw::reached();
        contract_roundtrip_table(&instances::TEEWORLDS, &input[..ilen], cap, bug, &trailing[..tlen]);
    });
    #[cfg(not(kani))]
    harness!(sampled_huff_roundtrip_freq_table, unwind = 1, {
        let mut freqs = [0u32; 256];
        let shape = draw::u8();
        for i in 0..256 {
            let f = draw::u32();
            // skewed vectors give long codes (up to the 24-bit limit is the interesting region)
            freqs[i] = match shape % 4 {
                0 => f,
                1 => 1 + f % 1000,
                2 => f | 0x100,
                _ => if i % 12 == 0 { 1u32 << ((i / 12) as u32) } else { 1 + f % 5 },
            };
        }
        let input = draw::bytes::<8>();
        let ilen = draw::usize_le(8);
        let cap = draw::usize_le(10);
        let bug = draw::bool();
        let trailing = draw::bytes::<2>();
        let tlen = draw::usize_le(2);
        draw::reached();
        contract_freq_table_roundtrip(&freqs, &input[..ilen], cap, bug, &trailing[..tlen]);
    });
    /// vacuity guard of the harness above: some sampled frequency vectors must yield a table
    #[cfg(not(kani))]
    #[test]
    fn sampled_huff_zz_freq_tables_built() {
        if draw::sample_cfg().is_some() {
            // runs after sampled_huff_roundtrip_freq_table only with --test-threads 1; informative otherwise
            println!("SAMPLED-INFO tables built so far: {}", BUILT.load(std::sync::atomic::Ordering::Relaxed));
        }
    }
    #[cfg(not(kani))]
    harness!(sampled_huff_compress_bits, unwind = 1, {
        let mut table = Huffman { nodes: [NODE_SENTINEL; NUM_NODES] };
        let ilen = draw::usize_le(2);
        let input = [draw::u8(), draw::u8()];
        let nb = |v: usize| (v + 1) as u8;
        let codes = [
            (draw::u32(), nb(draw::usize_le(23))),
            (draw::u32(), nb(draw::usize_le(23))),
            (draw::u32(), nb(draw::usize_le(23))),
        ];
        let cap = draw::usize_le(12);
        let bug = draw::bool();
        let m = |c: (u32, u8)| (c.0 & ((1u32 << c.1) - 1), c.1);
        draw::reached();
        contract_compress_bits(&mut table, input, ilen, [m(codes[0]), m(codes[1]), m(codes[2])], cap, bug);
    });
    #[cfg(not(kani))]
    harness!(sampled_huff_decompress_total, unwind = 1, {
        let input = draw::bytes::<16>();
        let ilen = draw::usize_le(16);
        let cap = draw::usize_le(3);
        draw::reached();
        contract_decompress_total::<16>(input, ilen, cap);
    });
    harness!(bounded_huff_decompress_total_2, unwind = 26, {
        let input = draw::bytes::<2>();
        let ilen = draw::usize();
        let cap = draw::usize();
        draw::assume(ilen <= 2 && cap <= 3);
        draw::reached();
        contract_decompress_total::<2>(input, ilen, cap);
    });
}
