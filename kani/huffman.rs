// Contract harnesses for libtw2-huffman (C07).
//   complete_*  : full domain (all node/symbol encodings; every node and symbol of the built-in table)
//   bounded_*   : chosen bound on the input LENGTH (stated per harness); codes/tables symbolic where noted
use super::*;

#[path = "/verif/kani/draw.rs"]
mod draw;

/// contract Node::to_symbol_repr / SymbolRepr::to_node: mutually inverse (bits < 2^24 required by to_node's assert)
pub fn contract_node_repr(a: u16, b: u16, bits: u32, num_bits: u8) {
    let n = Node { children: [a, b] };
    assert!(n.to_symbol_repr().to_node() == n);
    if bits >> 24 == 0 {
        let s = SymbolRepr { bits, num_bits };
        assert!(s.to_node().to_symbol_repr() == s);
    }
}

/// contract on the built-in table (instances::TEEWORLDS), one inner node index at a time:
///   both children are smaller than the node (so every walk from the root ends) and inside the table.
pub fn contract_table_inner_node(idx: u16) {
    if !(NUM_SYMBOLS <= idx && (idx as usize) < NUM_NODES) {
        return;
    }
    let t = &instances::TEEWORLDS;
    let n = t.get_node(idx).unwrap();
    assert!(n.children[0] < idx && n.children[1] < idx);
}
/// ... one symbol at a time: 1 <= num_bits <= 24, no stray bits, and walking the tree from the root along the
/// stored bits (LSB first) arrives exactly at that symbol (decode(encode(s)) == s; prefix-freeness follows from
/// tree addressing).
pub fn contract_table_symbol(sym: u16) {
    if sym >= NUM_SYMBOLS {
        return;
    }
    let t = &instances::TEEWORLDS;
    let repr = t.get_node(sym).unwrap_err();
    assert!(1 <= repr.num_bits && repr.num_bits <= 24);
    assert!(repr.bits >> repr.num_bits == 0);
    let mut idx = ROOT_IDX;
    let mut i = 0u32;
    while i < 24 {
        if i < repr.num_bits as u32 {
            let node = t.get_node(idx).unwrap(); // must still be an inner node
            idx = node.children[((repr.bits >> i) & 1) as usize];
        }
        i += 1;
    }
    assert!(idx == sym);
}

/// bit i (0-based, LSB-first inside each byte) of a byte string
fn bit_at(b: &[u8], i: usize) -> bool {
    (b[i / 8] >> (i % 8)) & 1 != 0
}

/// contract compress_impl_unsafe for an ARBITRARY table (symbolic codes for the symbols used), input of <= 2 bytes:
///   the output is the concatenation, LSB first, of the codes of the input symbols followed by the EOF code,
///   zero-padded to a whole byte (`bug` form: one more byte when the stream ends on a byte boundary);
///   Ok(len) with len == ceil(bits/8) (+ bug rule) <= buffer length, Err when the buffer is too short;
///   compressed_len / compressed_len_bug predict that length.
pub fn contract_compress_bits(
    table: &mut Huffman,
    input: [u8; 2],
    ilen: usize,
    codes: [(u32, u8); 3],
    cap: usize,
    bug: bool,
) {
    if ilen > 2 || cap > 12 {
        return;
    }
    // install symbolic codes for the symbols that occur (same symbol twice -> same code)
    let mut syms = [EOF; 3];
    for k in 0..ilen {
        syms[k] = input[k] as u16;
    }
    syms[ilen] = EOF;
    for k in 0..=ilen {
        let (bits, nb) = codes[k];
        if !(1 <= nb && nb <= 24 && bits >> nb == 0) {
            return;
        }
        if k == 1 && syms[1] == syms[0] && codes[1] != codes[0] {
            return;
        }
        table.nodes[syms[k] as usize] = SymbolRepr { bits, num_bits: nb }.to_node();
    }
    let mut total_bits = 0usize;
    for k in 0..=ilen {
        total_bits += codes[k].1 as usize;
    }
    let want_len = if bug { total_bits / 8 + 1 } else { (total_bits + 7) / 8 };
    assert!(table.compressed_len(&input[..ilen]) == (total_bits + 7) / 8);
    assert!(table.compressed_len_bug(&input[..ilen]) == total_bits / 8 + 1);
    let mut out = [0xAAu8; 12];
    let r = table.compress_impl_unsafe(&input[..ilen], &mut out[..cap], bug);
    if want_len > cap {
        assert!(r.is_err());
        return;
    }
    assert!(r == Ok(want_len));
    // nothing past the reported length was written
    for j in 0..12 {
        if j >= want_len {
            assert!(out[j] == 0xAA);
        }
    }
    // bit-exact content
    let mut pos = 0usize;
    for k in 0..=ilen {
        let (bits, nb) = codes[k];
        let mut i = 0u32;
        while i < 24 {
            if i < nb as u32 {
                assert!(bit_at(&out, pos) == ((bits >> i) & 1 != 0));
                pos += 1;
            }
            i += 1;
        }
    }
    while pos < want_len * 8 {
        assert!(!bit_at(&out, pos));
        pos += 1;
    }
}

/// contract compress -> decompress with the built-in table, input <= N bytes, every output capacity 0..=N+1:
///   capacity >= len: Ok and equal to the input (also for the reference-compatible `bug` form);
///   capacity <  len: Err(Capacity); nothing is written past the capacity.
pub fn contract_roundtrip<const N: usize>(input: [u8; N], ilen: usize, cap: usize, bug: bool) {
    if ilen > N || cap > N + 1 {
        return;
    }
    let t = &instances::TEEWORLDS;
    let mut comp = [0u8; 16];
    let clen = {
        let c = if bug {
            t.compress_bug(&input[..ilen], &mut comp[..]).unwrap()
        } else {
            t.compress(&input[..ilen], &mut comp[..]).unwrap()
        };
        c.len()
    };
    assert!(clen == if bug { t.compressed_len_bug(&input[..ilen]) } else { t.compressed_len(&input[..ilen]) });
    let mut out = [0x55u8; 8];
    let r = t.decompress_unsafe(&comp[..clen], &mut out[..cap]);
    if cap >= ilen {
        assert!(r == Ok(ilen));
        for j in 0..N {
            if j < ilen {
                assert!(out[j] == input[j]);
            }
        }
    } else {
        assert!(r.is_err());
    }
    for j in cap..8 {
        assert!(out[j] == 0x55);
    }
}

/// contract decompress_unsafe on ARBITRARY input bytes (built-in table), input <= N bytes, capacity <= C:
///   terminates, Ok(len) ==> len <= capacity, never writes past the capacity.
pub fn contract_decompress_total<const N: usize>(input: [u8; N], ilen: usize, cap: usize) {
    if ilen > N || cap > 3 {
        return;
    }
    let t = &instances::TEEWORLDS;
    let mut out = [0x55u8; 6];
    let r = t.decompress_unsafe(&input[..ilen], &mut out[..cap]);
    if let Ok(len) = r {
        assert!(len <= cap);
    }
    for j in cap..6 {
        assert!(out[j] == 0x55);
    }
}

pub mod proofs {
    use super::draw;
    use super::draw::harness;
    use super::*;
    harness!(complete_huff_node_repr, {
        let a = draw::u16();
        let b = draw::u16();
        let bits = draw::u32();
        let nb = draw::u8();
        draw::reached();
        contract_node_repr(a, b, bits, nb);
    });
    harness!(complete_huff_table_inner_node, {
        let idx = draw::u16();
        draw::assume(NUM_SYMBOLS <= idx && (idx as usize) < NUM_NODES);
        draw::reached();
        contract_table_inner_node(idx);
    });
    harness!(complete_huff_table_symbol, unwind = 26, {
        let s = draw::u16();
        draw::assume(s < NUM_SYMBOLS);
        draw::reached();
        contract_table_symbol(s);
    });
    // symbols are fixed (0x41, 0x42, EOF) so that the table is written at constant indices; their CODES are symbolic,
    // which is what compress_impl_unsafe depends on
    harness!(bounded_huff_compress_bits_1, unwind = 26, {
        let mut table = Huffman { nodes: [NODE_SENTINEL; NUM_NODES] };
        let ilen = draw::usize();
        let codes = [(draw::u32(), draw::u8()), (draw::u32(), draw::u8()), (1u32, 1u8)];
        let cap = draw::usize();
        let bug = draw::bool();
        draw::assume(ilen <= 1 && cap <= 7);
        draw::reached();
        contract_compress_bits(&mut table, [0x41, 0x42], ilen, codes, cap, bug);
    });
    harness!(bounded_huff_compress_bits, unwind = 26, {
        let mut table = Huffman { nodes: [NODE_SENTINEL; NUM_NODES] };
        let ilen = draw::usize();
        let codes = [(draw::u32(), draw::u8()), (draw::u32(), draw::u8()), (draw::u32(), draw::u8())];
        let cap = draw::usize();
        let bug = draw::bool();
        draw::assume(ilen <= 2 && cap <= 12);
        draw::reached();
        contract_compress_bits(&mut table, [0x41, 0x42], ilen, codes, cap, bug);
    });
    harness!(bounded_huff_roundtrip_1, unwind = 26, {
        let input = draw::bytes::<1>();
        let ilen = draw::usize();
        let cap = draw::usize();
        let bug = draw::bool();
        draw::assume(ilen <= 1 && cap <= 2);
        draw::reached();
        contract_roundtrip::<1>(input, ilen, cap, bug);
    });
    harness!(bounded_huff_roundtrip_2, unwind = 26, {
        let input = draw::bytes::<2>();
        let ilen = draw::usize();
        let cap = draw::usize();
        let bug = draw::bool();
        draw::assume(ilen <= 2 && cap <= 3);
        draw::reached();
        contract_roundtrip::<2>(input, ilen, cap, bug);
    });
    harness!(bounded_huff_decompress_total_2, unwind = 26, {
        let input = draw::bytes::<2>();
        let ilen = draw::usize();
        let cap = draw::usize();
        draw::assume(ilen <= 2 && cap <= 3);
        draw::reached();
        contract_decompress_total::<2>(input, ilen, cap);
    });
}
