// Input source shared by all contract harnesses: one body, two drivers.
//
//   cfg(kani):       every draw is kani::any() -- the full domain of the type.
//   cfg(not(kani)):  (normal toolchain, --cfg libtw2_verif) draws are taken in
//                    order from the replay file named by $VERIF_REPLAY, which
//                    holds the byte vectors of a Kani counterexample
//                    (--concrete-playback=print).  The same contract body then
//                    runs on the real code natively; a panic = reproduced.
#![allow(dead_code)]

#[cfg(not(kani))]
mod imp {
    use std::cell::RefCell;
    thread_local! {
        static VALS: RefCell<Vec<Vec<u8>>> = RefCell::new(Vec::new());
    }
    /// Returns true when the replay file names `harness`; loads its values.
    pub fn load(harness: &str) -> bool {
        let path = match std::env::var("VERIF_REPLAY") {
            Ok(p) => p,
            Err(_) => return false,
        };
        let text = match std::fs::read_to_string(&path) {
            Ok(t) => t,
            Err(_) => return false,
        };
        // format: first line "harness <name>", then one line per value:
        // decimal bytes separated by spaces.
        let mut lines = text.lines();
        match lines.next() {
            Some(l) if l.trim() == format!("harness {}", harness) => {}
            _ => return false,
        }
        let mut vals: Vec<Vec<u8>> = Vec::new();
        for l in lines {
            let l = l.trim();
            if l.is_empty() || l.starts_with('#') {
                continue;
            }
            vals.push(l.split_whitespace().map(|t| t.parse::<u8>().unwrap()).collect());
        }
        vals.reverse();
        VALS.with(|v| *v.borrow_mut() = vals);
        true
    }
    pub fn next(n: usize) -> Vec<u8> {
        let v = VALS.with(|v| v.borrow_mut().pop());
        match v {
            Some(v) => {
                assert!(v.len() == n, "replay: value width mismatch");
                v
            }
            // Kani omits trailing values that do not matter.
            None => vec![0; n],
        }
    }
}

#[cfg(not(kani))]
pub fn load(harness: &str) -> bool {
    imp::load(harness)
}

macro_rules! draw_fn {
    ($name:ident, $t:ty, $n:expr) => {
        #[cfg(kani)]
        pub fn $name() -> $t {
            kani::any()
        }
        #[cfg(not(kani))]
        pub fn $name() -> $t {
            let v = imp::next($n);
            let mut a = [0u8; $n];
            a.copy_from_slice(&v);
            <$t>::from_le_bytes(a)
        }
    };
}
draw_fn!(u8, u8, 1);
draw_fn!(u16, u16, 2);
draw_fn!(u32, u32, 4);
draw_fn!(u64, u64, 8);
draw_fn!(i32, i32, 4);
draw_fn!(i64, i64, 8);
draw_fn!(usize, usize, 8);

#[cfg(kani)]
pub fn bool() -> bool {
    kani::any()
}
#[cfg(not(kani))]
pub fn bool() -> bool {
    imp::next(1)[0] != 0
}

#[cfg(kani)]
pub fn bytes<const N: usize>() -> [u8; N] {
    kani::any()
}
#[cfg(not(kani))]
pub fn bytes<const N: usize>() -> [u8; N] {
    let mut a = [0u8; N];
    for i in 0..N {
        a[i] = u8();
    }
    a
}

#[cfg(kani)]
pub fn i32s<const N: usize>() -> [i32; N] {
    kani::any()
}
#[cfg(not(kani))]
pub fn i32s<const N: usize>() -> [i32; N] {
    let mut a = [0i32; N];
    for i in 0..N {
        a[i] = i32();
    }
    a
}

#[cfg(kani)]
pub fn assume(c: bool) {
    kani::assume(c)
}
#[cfg(not(kani))]
pub fn assume(c: bool) {
    assert!(c, "replay: counterexample violates the harness precondition");
}

/// Vacuity guard: each harness calls this after its assumptions; Kani reports
/// the cover as SATISFIED only if some input reaches it.
#[cfg(kani)]
pub fn reached() {
    kani::cover!(true, "vacuity guard: precondition satisfiable");
}
#[cfg(not(kani))]
pub fn reached() {}

/// Declares one harness with both drivers.
macro_rules! harness {
    ($name:ident, unwind = $u:expr, $body:block) => {
        #[cfg(kani)]
        #[kani::proof]
        #[kani::unwind($u)]
        pub fn $name() $body
        #[cfg(not(kani))]
        #[test]
        pub fn $name() {
            if draw::load(stringify!($name)) $body
        }
    };
    ($name:ident, $body:block) => {
        #[cfg(kani)]
        #[kani::proof]
        pub fn $name() $body
        #[cfg(not(kani))]
        #[test]
        pub fn $name() {
            if draw::load(stringify!($name)) $body
        }
    };
}
pub(crate) use harness;
