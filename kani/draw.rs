// Input source shared by all contract harnesses: one body, three drivers.
//
//   cfg(kani):       every draw is kani::any() -- the full domain of the type.
//   cfg(not(kani)):  (normal toolchain, --cfg libtw2_verif) draws are taken in
//                    order from the replay file named by $VERIF_REPLAY, which
//                    holds the byte vectors of a Kani counterexample
//                    (--concrete-playback=print).  The same contract body then
//                    runs on the real code natively; a panic = reproduced.
//   cfg(not(kani)) + $VERIF_SAMPLE="<iterations>:<seed>": draws come from a
//                    small-value-biased PRNG; the body is run <iterations>
//                    times (iterations whose assume() fails are skipped).  The
//                    first panicking iteration is written to
//                    $VERIF_SAMPLE_OUT<harness>.txt in the replay format above.
//                    This is a SAMPLED check: it can only find counterexamples,
//                    it proves nothing and is never counted as discharged.
#![allow(dead_code)]

#[cfg(not(kani))]
mod imp {
    use std::cell::RefCell;
    thread_local! {
        static VALS: RefCell<Vec<Vec<u8>>> = RefCell::new(Vec::new());
    }
    /// Returns true when the replay file names `harness`; loads its values.
    pub fn load(harness: &str) -> bool {
        let path = match std::env::var("VERIF_REPLAY") {
            Ok(p) => p,
            Err(_) => return false,
        };
        let text = match std::fs::read_to_string(&path) {
            Ok(t) => t,
            Err(_) => return false,
        };
        // format: first line "harness <name>", then one line per value:
        // decimal bytes separated by spaces.
        let mut lines = text.lines();
        match lines.next() {
            Some(l) if l.trim() == format!("harness {}", harness) => {}
            _ => return false,
        }
        let mut vals: Vec<Vec<u8>> = Vec::new();
        for l in lines {
            let l = l.trim();
            if l.is_empty() || l.starts_with('#') {
                continue;
            }
            vals.push(l.split_whitespace().map(|t| t.parse::<u8>().unwrap()).collect());
        }
        vals.reverse();
        VALS.with(|v| *v.borrow_mut() = vals);
        // a replayed counterexample that does not return is reported, not waited for
        watch_begin(harness, 0);
        true
    }
    thread_local! {
        static RNG: RefCell<Option<u64>> = RefCell::new(None);
        static TRACE: RefCell<Vec<Vec<u8>>> = RefCell::new(Vec::new());
    }
    pub struct AssumeRejected;
    pub fn sampling() -> bool {
        RNG.with(|r| r.borrow().is_some())
    }
    fn rnd() -> u64 {
        RNG.with(|r| {
            let mut g = r.borrow_mut();
            let mut x = g.unwrap();
            // xorshift64*
            x ^= x >> 12;
            x ^= x << 25;
            x ^= x >> 27;
            *g = Some(x);
            x.wrapping_mul(0x2545F4914F6CDD1D)
        })
    }
    fn sample_value(n: usize) -> Vec<u8> {
        let max: u64 = if n >= 8 { u64::MAX } else { (1u64 << (8 * n)) - 1 };
        let sel = rnd() % 100;
        let v: u64 = if sel < 45 {
            rnd() % 17
        } else if sel < 60 {
            // boundary values of the width and of narrower widths / sign bits
            let k = rnd() % 14;
            let w = [7u32, 8, 10, 15, 16, 24, 31, 32, 63][(rnd() % 9) as usize].min(8 * n as u32);
            let p = if w >= 64 { u64::MAX } else { (1u64 << w) - 1 };
            match k {
                0 => max,
                1 => max - 1,
                2 => max / 2,
                3 => max / 2 + 1,
                4 | 5 => p,
                6 | 7 => p.wrapping_add(1),
                8 => p.wrapping_sub(1),
                9 => max.wrapping_sub(rnd() % 17),
                10 => 255,
                11 => 256,
                12 => 1024,
                _ => 1400,
            }
        } else if sel < 75 {
            rnd() % 300
        } else {
            rnd()
        } & max;
        v.to_le_bytes()[..n].to_vec()
    }
    pub fn next_below(n: u64) -> u64 {
        let v = rnd() % n;
        TRACE.with(|t| t.borrow_mut().push(v.to_le_bytes().to_vec()));
        watch_draw(&v.to_le_bytes());
        v
    }
    // ---- watchdog: a sampled iteration (or a replay) that does not return is a counterexample too ("every call returns") -----------
    // The draws of the running iteration are mirrored into a process-wide table; a watchdog thread writes them out as a replay file
    // and ends the process when one iteration has been running for HANG_SECS.
    const HANG_SECS: u64 = 120;
    struct Running {
        since: std::time::Instant,
        draws: Vec<Vec<u8>>,
        seed: u64,
    }
    static WATCH: std::sync::Mutex<Option<std::collections::HashMap<String, Running>>> = std::sync::Mutex::new(None);
    thread_local!(static CURRENT: std::cell::RefCell<Option<String>> = std::cell::RefCell::new(None));
    fn watch_begin(harness: &str, seed: u64) {
        static START: std::sync::Once = std::sync::Once::new();
        START.call_once(|| {
            std::thread::spawn(|| loop {
                std::thread::sleep(std::time::Duration::from_secs(1));
                let g = WATCH.lock().unwrap();
                if let Some(m) = g.as_ref() {
                    for (h, r) in m.iter() {
                        if r.since.elapsed().as_secs() >= HANG_SECS {
                            let msg = format!("iteration did not return within {} s (non-termination?)", HANG_SECS);
                            let mut text = format!("harness {}\n# sampled counterexample (seed {}): {}\n", h, r.seed, msg);
                            for v in r.draws.iter() {
                                let l: Vec<String> = v.iter().map(|b| b.to_string()).collect();
                                text.push_str(&l.join(" "));
                                text.push('\n');
                            }
                            if let Ok(prefix) = std::env::var("VERIF_SAMPLE_OUT") {
                                let _ = std::fs::write(format!("{}{}.txt", prefix, h), &text);
                            }
                            println!("SAMPLED-COUNTEREXAMPLE harness={} panic={}", h, msg);
                            println!("SAMPLED-HANG harness={}", h);
                            std::process::exit(101);
                        }
                    }
                }
            });
        });
        CURRENT.with(|c| *c.borrow_mut() = Some(harness.to_string()));
        let mut g = WATCH.lock().unwrap();
        g.get_or_insert_with(std::collections::HashMap::new)
            .insert(harness.to_string(), Running { since: std::time::Instant::now(), draws: Vec::new(), seed });
    }
    fn watch_draw(v: &[u8]) {
        CURRENT.with(|c| {
            if let Some(h) = c.borrow().as_ref() {
                if let Some(m) = WATCH.lock().unwrap().as_mut() {
                    if let Some(r) = m.get_mut(h) {
                        r.draws.push(v.to_vec());
                    }
                }
            }
        });
    }
    fn watch_end() {
        CURRENT.with(|c| {
            if let Some(h) = c.borrow_mut().take() {
                if let Some(m) = WATCH.lock().unwrap().as_mut() {
                    m.remove(&h);
                }
            }
        });
    }
    pub fn sample_cfg() -> Option<(u64, u64)> {
        let c = std::env::var("VERIF_SAMPLE").ok()?;
        let mut it = c.split(':');
        let n = it.next()?.parse::<u64>().ok()?;
        let seed = it.next().and_then(|s| s.parse::<u64>().ok()).unwrap_or(1);
        Some((n, seed))
    }
    /// Runs `body` up to `n` times on sampled draws; on the first real panic writes the draws as a replay file.
    pub fn sample<F: Fn()>(harness: &str, cfg: (u64, u64), body: F) {
        let (n, seed) = cfg;
        // harnesses named *_heavy cost milliseconds per iteration: a tenth of the iterations
        let n = if harness.ends_with("_heavy") { (n / 10).max(1) } else { n };
        let mut h: u64 = 0xcbf29ce484222325;
        for b in harness.bytes() {
            h = (h ^ b as u64).wrapping_mul(0x100000001b3);
        }
        RNG.with(|r| *r.borrow_mut() = Some((seed.wrapping_mul(0x9E3779B97F4A7C15) ^ h) | 1));
        // rejected assumptions unwind with a payload; keep the process-wide hook silent while sampling (tests of one
        // crate run in parallel threads, so the hook is installed once and not restored)
        static SILENCE: std::sync::Once = std::sync::Once::new();
        SILENCE.call_once(|| std::panic::set_hook(Box::new(|_| {})));
        let mut ran: u64 = 0;
        let mut failed: Option<String> = None;
        for _ in 0..n {
            TRACE.with(|t| t.borrow_mut().clear());
            let t0 = std::time::Instant::now();
            watch_begin(harness, seed);
            let r = std::panic::catch_unwind(std::panic::AssertUnwindSafe(|| body()));
            watch_end();
            if t0.elapsed().as_secs() >= 5 {
                // diagnostic only: one iteration that takes this long usually means a harness walking a huge range
                let mut text = format!("harness {}\n# slow iteration ({} s)\n", harness, t0.elapsed().as_secs());
                TRACE.with(|t| {
                    for v in t.borrow().iter() {
                        let l: Vec<String> = v.iter().map(|b| b.to_string()).collect();
                        text.push_str(&l.join(" "));
                        text.push('\n');
                    }
                });
                if let Ok(prefix) = std::env::var("VERIF_SAMPLE_OUT") {
                    let _ = std::fs::write(format!("{}{}.slow.txt", prefix, harness), &text);
                }
                println!("SAMPLED-SLOW harness={} secs={}", harness, t0.elapsed().as_secs());
            }
            match r {
                Ok(()) => ran += 1,
                Err(e) => {
                    if e.downcast_ref::<AssumeRejected>().is_some() {
                        continue;
                    }
                    let msg = if let Some(s) = e.downcast_ref::<&str>() {
                        s.to_string()
                    } else if let Some(s) = e.downcast_ref::<String>() {
                        s.clone()
                    } else {
                        "panic".to_string()
                    };
                    failed = Some(msg);
                    break;
                }
            }
        }
        RNG.with(|r| *r.borrow_mut() = None);
        println!("SAMPLED harness={} iterations={} passed_precondition={}", harness, n, ran);
        if let Some(msg) = failed {
            let mut text = format!("harness {}\n# sampled counterexample (seed {}): {}\n", harness, seed, msg.replace('\n', " "));
            TRACE.with(|t| {
                for v in t.borrow().iter() {
                    let l: Vec<String> = v.iter().map(|b| b.to_string()).collect();
                    text.push_str(&l.join(" "));
                    text.push('\n');
                }
            });
            if let Ok(prefix) = std::env::var("VERIF_SAMPLE_OUT") {
                let _ = std::fs::write(format!("{}{}.txt", prefix, harness), &text);
            }
            println!("SAMPLED-COUNTEREXAMPLE harness={} panic={}", harness, msg.replace('\n', " "));
            panic!("sampled counterexample for {}: {}", harness, msg);
        }
        assert!(ran > 0, "sampled harness {}: no iteration satisfied the precondition (vacuous)", harness);
    }
    pub fn next(n: usize) -> Vec<u8> {
        if sampling() {
            let v = sample_value(n);
            TRACE.with(|t| t.borrow_mut().push(v.clone()));
            watch_draw(&v);
            return v;
        }
        let v = VALS.with(|v| v.borrow_mut().pop());
        match v {
            Some(v) => {
                assert!(v.len() == n, "replay: value width mismatch");
                v
            }
            // Kani omits trailing values that do not matter.
            None => vec![0; n],
        }
    }
}

#[cfg(not(kani))]
pub fn load(harness: &str) -> bool {
    imp::load(harness)
}
#[cfg(not(kani))]
pub fn sample_cfg() -> Option<(u64, u64)> {
    imp::sample_cfg()
}
#[cfg(not(kani))]
pub fn sample<F: Fn()>(harness: &str, cfg: (u64, u64), body: F) {
    imp::sample(harness, cfg, body)
}

macro_rules! draw_fn {
    ($name:ident, $t:ty, $n:expr) => {
        #[cfg(kani)]
        pub fn $name() -> $t {
            kani::any()
        }
        #[cfg(not(kani))]
        pub fn $name() -> $t {
            let v = imp::next($n);
            let mut a = [0u8; $n];
            a.copy_from_slice(&v);
            <$t>::from_le_bytes(a)
        }
    };
}
draw_fn!(u8, u8, 1);
draw_fn!(u16, u16, 2);
draw_fn!(u32, u32, 4);
draw_fn!(u64, u64, 8);
draw_fn!(i32, i32, 4);
draw_fn!(i64, i64, 8);
draw_fn!(usize, usize, 8);

/// a usize in 0..=max (Kani: any value with that assumption; sampling: uniform; replay: the recorded value)
#[cfg(kani)]
pub fn usize_le(max: usize) -> usize {
    let v: usize = kani::any();
    kani::assume(v <= max);
    v
}
#[cfg(not(kani))]
pub fn usize_le(max: usize) -> usize {
    if imp::sampling() {
        return imp::next_below(max as u64 + 1) as usize;
    }
    let v = usize();
    assert!(v <= max, "replay: counterexample violates the harness precondition");
    v
}

#[cfg(kani)]
pub fn bool() -> bool {
    kani::any()
}
#[cfg(not(kani))]
pub fn bool() -> bool {
    imp::next(1)[0] != 0
}

#[cfg(kani)]
pub fn bytes<const N: usize>() -> [u8; N] {
    kani::any()
}
#[cfg(not(kani))]
pub fn bytes<const N: usize>() -> [u8; N] {
    let mut a = [0u8; N];
    for i in 0..N {
        a[i] = u8();
    }
    a
}

#[cfg(kani)]
pub fn i32s<const N: usize>() -> [i32; N] {
    kani::any()
}
#[cfg(not(kani))]
pub fn i32s<const N: usize>() -> [i32; N] {
    let mut a = [0i32; N];
    for i in 0..N {
        a[i] = i32();
    }
    a
}

#[cfg(kani)]
pub fn assume(c: bool) {
    kani::assume(c)
}
#[cfg(not(kani))]
pub fn assume(c: bool) {
    if imp::sampling() {
        if !c {
            std::panic::panic_any(imp::AssumeRejected);
        }
        return;
    }
    assert!(c, "replay: counterexample violates the harness precondition");
}

/// Vacuity guard: each harness calls this after its assumptions; Kani reports
/// the cover as SATISFIED only if some input reaches it.
#[cfg(kani)]
pub fn reached() {
    kani::cover!(true, "vacuity guard: precondition satisfiable");
}
#[cfg(not(kani))]
pub fn reached() {}

/// Declares one harness with both drivers.
macro_rules! harness {
    ($name:ident, unwind = $u:expr, $body:block) => {
        #[cfg(kani)]
        #[kani::proof]
        #[kani::unwind($u)]
        pub fn $name() $body
        #[cfg(not(kani))]
        #[test]
        pub fn $name() {
            if draw::load(stringify!($name)) $body
            else if let Some(cfg) = draw::sample_cfg() {
                draw::sample(stringify!($name), cfg, || $body)
            }
        }
    };
    ($name:ident, $body:block) => {
        #[cfg(kani)]
        #[kani::proof]
        pub fn $name() $body
        #[cfg(not(kani))]
        #[test]
        pub fn $name() {
            if draw::load(stringify!($name)) $body
            else if let Some(cfg) = draw::sample_cfg() {
                draw::sample(stringify!($name), cfg, || $body)
            }
        }
    };
}
pub(crate) use harness;
