// An independent writer of Teeworlds datafiles (doc/datafile.md), used by the sampled harnesses of C16.
// No dependency on the code under test: layout, item headers and the zlib container (stored deflate blocks + adler32)
// are produced by hand.
#![allow(dead_code)]

#[derive(Clone, Debug, PartialEq)]
pub struct DfItem {
    pub type_id: u16,
    pub id: u16,
    pub data: Vec<i32>,
}

/// zlib stream with stored (uncompressed) deflate blocks
pub fn zlib_stored(data: &[u8]) -> Vec<u8> {
    let mut out = vec![0x78, 0x01];
    let mut chunks: Vec<&[u8]> = data.chunks(65535).collect();
    if chunks.is_empty() {
        chunks.push(&[]);
    }
    let n = chunks.len();
    for (i, c) in chunks.into_iter().enumerate() {
        out.push(if i + 1 == n { 1 } else { 0 });
        let len = c.len() as u16;
        out.extend_from_slice(&len.to_le_bytes());
        out.extend_from_slice(&(!len).to_le_bytes());
        out.extend_from_slice(c);
    }
    let (mut a, mut b) = (1u32, 0u32);
    for &x in data {
        a = (a + x as u32) % 65521;
        b = (b + a) % 65521;
    }
    out.extend_from_slice(&((b << 16) | a).to_be_bytes());
    out
}

/// Offsets of the sections inside the produced file (for targeted corruption)
pub struct Layout {
    pub header: usize,       // 8: first of the seven header ints
    pub item_types: usize,   // start of the item type table
    pub item_offsets: usize, // start of the item offset table
    pub data_offsets: usize, // start of the data offset table
    pub data_sizes: usize,   // start of the uncompressed-size table (== items for version 3)
    pub items: usize,        // start of the item section
    pub data: usize,         // start of the data section
}

/// items must be grouped by type (all items of a type adjacent); that is the format's requirement
pub fn write_datafile(version: i32, items: &[DfItem], data: &[Vec<u8>]) -> (Vec<u8>, Layout) {
    // item types in order of first appearance
    let mut types: Vec<(u16, usize, usize)> = Vec::new();
    for (i, it) in items.iter().enumerate() {
        match types.last_mut() {
            Some(t) if t.0 == it.type_id => t.2 += 1,
            _ => types.push((it.type_id, i, 1)),
        }
    }
    let mut item_bytes: Vec<u8> = Vec::new();
    let mut item_offsets: Vec<i32> = Vec::new();
    for it in items {
        item_offsets.push(item_bytes.len() as i32);
        let tid = ((it.type_id as u32) << 16 | it.id as u32) as i32;
        item_bytes.extend_from_slice(&tid.to_le_bytes());
        item_bytes.extend_from_slice(&((it.data.len() * 4) as i32).to_le_bytes());
        for d in &it.data {
            item_bytes.extend_from_slice(&d.to_le_bytes());
        }
    }
    let mut data_bytes: Vec<u8> = Vec::new();
    let mut data_offsets: Vec<i32> = Vec::new();
    let mut data_sizes: Vec<i32> = Vec::new();
    for d in data {
        data_offsets.push(data_bytes.len() as i32);
        data_sizes.push(d.len() as i32);
        if version == 4 {
            data_bytes.extend_from_slice(&zlib_stored(d));
        } else {
            data_bytes.extend_from_slice(d);
        }
    }
    let tables = types.len() * 12 + items.len() * 4 + data.len() * 4 + if version == 4 { data.len() * 4 } else { 0 };
    // size: whole file without version header, size and swaplen; swaplen: the integer part after size/swaplen
    let swaplen = 20 + tables + item_bytes.len();
    let size = swaplen + data_bytes.len();
    let mut out: Vec<u8> = Vec::new();
    out.extend_from_slice(b"DATA");
    out.extend_from_slice(&version.to_le_bytes());
    for v in [
        size as i32,
        swaplen as i32,
        types.len() as i32,
        items.len() as i32,
        data.len() as i32,
        item_bytes.len() as i32,
        data_bytes.len() as i32,
    ] {
        out.extend_from_slice(&v.to_le_bytes());
    }
    let mut lay = Layout { header: 8, item_types: out.len(), item_offsets: 0, data_offsets: 0, data_sizes: 0, items: 0, data: 0 };
    for (t, start, num) in &types {
        out.extend_from_slice(&(*t as i32).to_le_bytes());
        out.extend_from_slice(&(*start as i32).to_le_bytes());
        out.extend_from_slice(&(*num as i32).to_le_bytes());
    }
    lay.item_offsets = out.len();
    for o in &item_offsets {
        out.extend_from_slice(&o.to_le_bytes());
    }
    lay.data_offsets = out.len();
    for o in &data_offsets {
        out.extend_from_slice(&o.to_le_bytes());
    }
    lay.data_sizes = out.len();
    if version == 4 {
        for s in &data_sizes {
            out.extend_from_slice(&s.to_le_bytes());
        }
    }
    lay.items = out.len();
    out.extend_from_slice(&item_bytes);
    lay.data = out.len();
    out.extend_from_slice(&data_bytes);
    (out, lay)
}

/// a file in the temp dir that is removed on drop (the file-based readers need a std::fs::File)
pub struct TempFile(pub std::path::PathBuf);
impl TempFile {
    pub fn new(bytes: &[u8]) -> TempFile {
        use std::sync::atomic::{AtomicUsize, Ordering};
        static N: AtomicUsize = AtomicUsize::new(0);
        let p = std::env::temp_dir().join(format!("libtw2_verif_{}_{}.df", std::process::id(), N.fetch_add(1, Ordering::Relaxed)));
        std::fs::write(&p, bytes).unwrap();
        TempFile(p)
    }
}
impl Drop for TempFile {
    fn drop(&mut self) {
        let _ = std::fs::remove_file(&self.0);
    }
}
