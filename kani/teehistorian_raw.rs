// Sampled contract harness for teehistorian/src/raw.rs (C17).  The per-call contract of Reader::read (tick nesting,
// strictly increasing tick numbers, positions as running sums) is what the Verus unit `teehist` proves; this harness
// states the property end to end -- the item sequence does not depend on how the stream is cut, tick boundaries are
// properly nested with the documented numbers, positions/inputs are the running sums, no stream panics -- on streams
// generated from a random server history.  SAMPLED only (native PRNG driver): replayable counterexamples, no proof.
#![allow(unused_imports)]
use super::*;

#[path = "/verif/kani/draw.rs"]
mod draw;

#[cfg(not(kani))]
pub mod sampled {
    use super::super::Buffer;
    use super::super::Callback;
    use super::super::Item;
    use super::super::Reader;
    use libtw2_packer::with_packer;

    /// feeds `data` in pieces of the given sizes (cycled); Ok(None) at the end
    pub struct Cuts<'a> {
        pub data: &'a [u8],
        pub pos: usize,
        pub sizes: &'a [usize],
        pub k: usize,
    }
    impl<'a> Callback for Cuts<'a> {
        type Error = ();
        fn read_at_most(&mut self, buffer: &mut [u8]) -> Result<Option<usize>, ()> {
            if self.pos == self.data.len() {
                return Ok(None);
            }
            // an empty read result (Ok(Some(0)), what the file reader returns when interrupted) is not the end of stream
            let want = self.sizes[self.k % self.sizes.len()];
            self.k += 1;
            let n = want.min(buffer.len()).min(self.data.len() - self.pos);
            buffer[..n].copy_from_slice(&self.data[self.pos..self.pos + n]);
            self.pos += n;
            Ok(Some(n))
        }
    }
    /// the items (Debug form) the reader produces for `data` cut into `sizes`; Err text on an error
    pub fn run(data: &[u8], sizes: &[usize]) -> Vec<String> {
        let mut out = Vec::new();
        let mut cb = Cuts { data, pos: 0, sizes, k: 0 };
        let mut buffer = Buffer::new();
        let mut reader = match Reader::new(&mut cb, &mut buffer) {
            Ok((h, r)) => {
                out.push(format!("header v{} {}", h.version, h.map_name));
                r
            }
            Err(e) => {
                out.push(format!("header error {:?}", e));
                return out;
            }
        };
        loop {
            match reader.read(&mut cb, &mut buffer) {
                Ok(Some(item)) => {
                    if std::env::var("VERIF_SIM_DEBUG").is_ok() { println!("ITEMDBG {:?}", item); }
                    out.push(format!("{:?}", item))
                }
                Ok(None) => {
                    out.push("finish".into());
                    break;
                }
                Err(e) => {
                    out.push(format!("error {:?}", e));
                    break;
                }
            }
            // positions / inputs of every known client can be asked for at any time
            // (a disturbed stream can announce a client id near i32::MAX; only small id ranges are walked)
            for cid in reader.cids().take(64) {
                let _ = reader.player_pos(cid);
                let _ = reader.input(cid);
            }
            if out.len() > 100_000 {
                panic!("reader does not terminate");
            }
        }
        out
    }
    pub fn header(version: i32) -> Vec<u8> {
        let mut d: Vec<u8> = crate::format::UUID.to_vec();
        let start = if version == 1 { "2020-01-02 03:04:05 +0000" } else { "2020-01-02T03:04:05+00:00" };
        d.extend_from_slice(
            format!(
                "{{\"version\":\"{}\",\"game_uuid\":\"00000000-0000-0000-0000-000000000000\",\"start_time\":\"{}\",\"server_port\":\"8303\",\"map_name\":\"dm1\",\"map_size\":\"1\",\"map_crc\":\"0badc0de\",\"config\":{{}}}}",
                version, start
            )
            .as_bytes(),
        );
        d.push(0);
        d
    }
    pub fn ints(d: &mut Vec<u8>, v: &[i32]) {
        for &x in v {
            let mut b = [0u8; 8];
            let n = with_packer(&mut b[..], |mut p| {
                p.write_int(x).unwrap();
                p.written().len()
            });
            d.extend_from_slice(&b[..n]);
        }
    }
    /// contract: same items for every way of cutting the stream
    pub fn contract_fragmentation(data: &[u8], sizes: &[usize]) -> Vec<String> {
        let whole = run(data, &[usize::MAX / 2]);
        let bytewise = run(data, &[1]);
        let cut = run(data, sizes);
        assert!(whole == bytewise, "items differ between one read and byte-by-byte reads");
        assert!(whole == cut, "items differ between one read and the drawn fragmentation");
        whole
    }
}

pub mod proofs {
    use super::draw;
    use super::draw::harness;

    // A valid stream from a random server history: players join, move (PlayerDiff in increasing cid order inside a
    // tick; a non-increasing cid starts a new tick implicitly), leave, explicit tick skips, inputs, messages, drops,
    // console commands, known and unknown extension items.  The harness keeps its own model of the tick number and the
    // positions and compares it with what the reader reports; the same stream is read whole, byte-by-byte and in
    // drawn pieces.  One stream in four is truncated or has one byte disturbed (then only "same result for every
    // fragmentation, no panic" is checked).
    #[cfg(not(kani))]
    harness!(sampled_teehistorian_fragmentation, unwind = 1, {
        use super::sampled::*;
        let version = 1 + draw::usize_le(1) as i32;
        // One stream in four is truncated or has one byte disturbed.  Such a stream only contains one-byte integers
        // (values -64..=63) and the disturbance keeps it that way: the reader indexes a VecMap by client id, so a
        // re-interpreted multi-byte integer used as a cid makes it allocate gigabytes (observation in DESIGN.md 13.3),
        // which is not what this harness is after.
        let disturb = draw::usize_le(3) == 0;
        let val = |v: i32| if disturb { v % 64 } else { v };
        let mut d = header(version);
        let mut expect: Vec<String> = vec![format!("header v{} dm1", version)];
        let mut tick: i64 = 0;
        let mut in_tick = false;
        let mut prev_cid: Option<i32> = None;
        let mut pos: Vec<Option<(i32, i32)>> = vec![None; 8];
        let mut inputs: Vec<Option<[i32; 10]>> = vec![None; 8];
        let mut valid = true;
        let n = draw::usize_le(30);
        // the model mirrors doc/teehistorian.md: implicit tick start before the first non-skip item, implicit tick
        // end when a player item's cid does not increase, explicit skips of dt+1 ticks
        macro_rules! start_tick_if_needed {
            () => {
                if !in_tick {
                    expect.push(format!("TickStart({})", tick));
                    in_tick = true;
                }
            };
        }
        macro_rules! player_item {
            ($cid:expr) => {
                if in_tick {
                    if let Some(p) = prev_cid {
                        if p >= $cid {
                            expect.push(format!("TickEnd({})", tick));
                            tick += 1;
                            prev_cid = None;
                            in_tick = false;
                        }
                    }
                }
                start_tick_if_needed!();
                prev_cid = Some($cid);
            };
        }
        for _ in 0..n {
            if !valid || tick > i32::MAX as i64 - 10 {
                break;
            }
            let cid = draw::usize_le(5) as i32;
            match draw::usize_le(11) {
                0 => {
                    // explicit tick skip
                    let dt = if disturb { [0, 0, 1, 5, 40][draw::usize_le(4)] } else { [0, 0, 1, 5, 1000][draw::usize_le(4)] };
                    ints(&mut d, &[-2, dt]);
                    if in_tick {
                        expect.push(format!("TickEnd({})", tick));
                        tick += 1 + dt as i64;
                        in_tick = false;
                    } else {
                        tick += 1 + dt as i64;
                        expect.push(format!("TickStart({})", tick));
                        in_tick = true;
                    }
                    prev_cid = None;
                }
                1 | 2 => {
                    if pos[cid as usize].is_none() {
                        let (x, y) = (val(draw::i32()), val(draw::i32()));
                        player_item!(cid);
                        ints(&mut d, &[-3, cid, x, y]);
                        pos[cid as usize] = Some((x, y));
                        expect.push(format!("PlayerNew {{ cid: {}, pos: ({}, {}) }}", cid, x, y));
                    }
                }
                3 | 4 | 5 => {
                    if let Some((x, y)) = pos[cid as usize] {
                        let (dx, dy) = (val(draw::i32()), val(draw::i32()));
                        player_item!(cid);
                        ints(&mut d, &[cid, dx, dy]);
                        let (nx, ny) = (x.wrapping_add(dx), y.wrapping_add(dy));
                        pos[cid as usize] = Some((nx, ny));
                        expect.push(format!("PlayerChange {{ cid: {}, pos: ({}, {}), old_pos: ({}, {}) }}", cid, nx, ny, x, y));
                    }
                }
                6 => {
                    if let Some((x, y)) = pos[cid as usize] {
                        player_item!(cid);
                        ints(&mut d, &[-4, cid]);
                        pos[cid as usize] = None;
                        expect.push(format!("PlayerOld {{ cid: {}, pos: ({}, {}) }}", cid, x, y));
                    }
                }
                7 => {
                    start_tick_if_needed!();
                    let new: Vec<i32> = (0..10).map(|_| val(draw::i32())).collect();
                    let mut v = vec![-6, cid];
                    v.extend_from_slice(&new);
                    ints(&mut d, &v);
                    let mut a = [0i32; 10];
                    a.copy_from_slice(&new);
                    inputs[cid as usize] = Some(a);
                    expect.push(format!("Input {{ cid: {}, input: {:?} }}", cid, a));
                }
                8 => {
                    if let Some(old) = inputs[cid as usize] {
                        start_tick_if_needed!();
                        let diff: Vec<i32> = (0..10).map(|_| val(draw::i32())).collect();
                        let mut v = vec![-5, cid];
                        v.extend_from_slice(&diff);
                        ints(&mut d, &v);
                        let mut a = old;
                        for k in 0..10 {
                            a[k] = a[k].wrapping_add(diff[k]);
                        }
                        inputs[cid as usize] = Some(a);
                        expect.push(format!("Input {{ cid: {}, input: {:?} }}", cid, a));
                    }
                }
                9 => {
                    // message / join / drop / console command: content is compared between fragmentations only
                    start_tick_if_needed!();
                    match draw::usize_le(3) {
                        0 => {
                            let len = draw::usize_le(40);
                            ints(&mut d, &[-7, cid, len as i32]);
                            for _ in 0..len {
                                d.push(if disturb { draw::u8() & 0x3f } else { draw::u8() });
                            }
                        }
                        1 => ints(&mut d, &[-8, cid]),
                        2 => {
                            ints(&mut d, &[-9, cid]);
                            d.extend_from_slice(b"timeout\0");
                        }
                        _ => {
                            ints(&mut d, &[-10, cid, 3]);
                            d.extend_from_slice(b"say\0");
                            let na = draw::usize_le(3);
                            ints(&mut d, &[na as i32]);
                            for _ in 0..na {
                                d.extend_from_slice(b"hi\0");
                            }
                        }
                    }
                    expect.push("?".into());
                }
                10 if version == 2 => {
                    start_tick_if_needed!();
                    ints(&mut d, &[-11]);
                    let uuid = match if disturb { 3 } else { draw::usize_le(3) } {
                        0 => crate::format::item::UUID_JOINVER6,
                        1 => crate::format::item::UUID_PLAYER_READY,
                        2 => crate::format::item::UUID_TEAM_PRACTICE,
                        _ => [0x42; 16],
                    };
                    d.extend_from_slice(&uuid);
                    let mut payload: Vec<u8> = Vec::new();
                    ints(&mut payload, &[cid, draw::usize_le(1) as i32]);
                    ints(&mut d, &[payload.len() as i32]);
                    d.extend_from_slice(&payload);
                    expect.push("?".into());
                }
                _ => {}
            }
        }
        let finish = draw::usize_le(5) != 0;
        if finish {
            ints(&mut d, &[-1]);
            if in_tick {
                expect.push(format!("TickEnd({})", tick));
            }
            expect.push("finish".into());
        }
        if disturb && !d.is_empty() {
            if draw::bool() {
                let cut = draw::usize_le(d.len());
                d.truncate(cut);
            } else {
                // only behind the header, only the low six bits
                let h = header(version).len();
                if d.len() > h {
                    let i = h + draw::usize_le(d.len() - h - 1);
                    d[i] = (d[i] & 0xc0) | (draw::u8() & 0x3f);
                }
            }
        }
        let mut sizes: Vec<usize> = (0..(1 + draw::usize_le(4))).map(|_| draw::usize_le(20)).collect();
        sizes.push(1 + draw::usize_le(9)); // at least one non-empty read per cycle
        draw::reached();
        if std::env::var("VERIF_SIM_DEBUG").is_ok() { println!("DUMP sizes={:?} len={} tail={:?}", sizes, d.len(), &d[d.len().saturating_sub(60)..]); }
        let got = contract_fragmentation(&d, &sizes);
        if !disturb && finish {
            // tick structure, tick numbers, positions and inputs as the harness' model of the documentation says
            if std::env::var("VERIF_SIM_DEBUG").is_ok() {
                for i in 0..got.len().max(expect.len()) {
                    println!("{:3} got={:?} expect={:?}", i, got.get(i), expect.get(i));
                }
            }
            assert!(got.len() == expect.len(), "number of items differs from the model: {:?} vs {:?}", got.len(), expect.len());
            for (g, e) in got.iter().zip(expect.iter()) {
                if e != "?" {
                    assert!(g == e, "item differs from the model: {} vs {}", g, e);
                }
            }
        }
    });
}
