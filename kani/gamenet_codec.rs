// Sampled contract harness for the generated message / snapshot-object codecs (C14), shared by the four protocol crates
// (hooked at the end of each crate's src/traits.rs).  The Verus/Kani part of C14 is the set of primitives every codec
// is made of (packer::{in_range, at_least, positive, to_bool, sanitize, read_int, read_string, read_data}: unit packer
// and the Kani harnesses of C08); the codecs themselves are several hundred generated functions and are exercised
// here against test vectors derived from the protocol descriptions by /verif/lib/c14_vectors.py (independent of the
// generator): canonical bytes decode without warning and re-encode to the same bytes, violations of a described
// constraint are rejected; plus arbitrary bytes for every id (no panic).  SAMPLED / vector-based: no proof.
#![allow(unused_imports, dead_code)]

#[path = "/verif/kani/draw.rs"]
mod draw;

#[cfg(not(kani))]
pub mod sampled {
    use crate::msg::Game;
    use crate::msg::System;
    use crate::snap_obj::TypeId;
    use crate::SnapObj;
    use libtw2_gamenet_common::msg::MessageId;
    use libtw2_packer::with_packer;
    use libtw2_packer::ExcessData;
    use libtw2_packer::IntUnpacker;
    use libtw2_packer::Unpacker;
    use libtw2_packer::Warning;
    use std::sync::Mutex;

    #[derive(Clone, Debug)]
    pub enum Id {
        Ordinal(i32),
        Uuid([u8; 16]),
        /// the eight id bytes of a connectionless message
        Connless([u8; 8]),
    }
    #[derive(Clone, Debug)]
    pub struct Vector {
        pub section: String,
        pub id: Id,
        pub ok: bool,
        pub bytes: Vec<u8>,
        pub ints: Vec<i32>,
        /// positions of boolean members (snapshot objects only)
        pub bools: Vec<usize>,
        pub line: usize,
    }
    fn hex(s: &str) -> Vec<u8> {
        if s == "-" {
            return Vec::new();
        }
        (0..s.len() / 2).map(|i| u8::from_str_radix(&s[2 * i..2 * i + 2], 16).unwrap()).collect()
    }
    pub fn load() -> Vec<Vector> {
        let dir = std::env::var("VERIF_C14_DIR").unwrap_or_else(|_| "/verif/build/c14".to_string());
        let path = format!("{}/{}.vec", dir, env!("CARGO_PKG_NAME"));
        let text = std::fs::read_to_string(&path).unwrap_or_else(|e| panic!("vector file {} missing: {}", path, e));
        let mut v = Vec::new();
        for (n, l) in text.lines().enumerate() {
            let f: Vec<&str> = l.split(' ').collect();
            if f.len() != 4 && f.len() != 5 {
                continue;
            }
            let bools: Vec<usize> = if f.len() == 5 && f[4] != "-" { f[4].split(',').map(|x| x.parse().unwrap()).collect() } else { Vec::new() };
            let id = if f[0] == "connless" {
                let b = hex(f[1]);
                let mut a = [0u8; 8];
                a.copy_from_slice(&b);
                Id::Connless(a)
            } else if f[1].len() == 32 {
                let b = hex(f[1]);
                let mut a = [0u8; 16];
                a.copy_from_slice(&b);
                Id::Uuid(a)
            } else {
                Id::Ordinal(f[1].parse().unwrap())
            };
            let (bytes, ints) = if f[0] == "obj" {
                (Vec::new(), if f[3] == "-" { Vec::new() } else { f[3].split(',').map(|x| x.parse().unwrap()).collect() })
            } else {
                (hex(f[3]), Vec::new())
            };
            v.push(Vector { section: f[0].to_string(), id, ok: f[2] == "ok", bytes, ints, bools, line: n + 1 });
        }
        assert!(v.len() > 100, "vector file {} is (nearly) empty", path);
        v
    }
    fn msg_id(id: &Id) -> MessageId {
        match id {
            Id::Ordinal(i) => MessageId::Ordinal(*i),
            Id::Uuid(u) => MessageId::Uuid(uuid::Uuid::from_bytes(*u)),
            Id::Connless(_) => unreachable!(),
        }
    }
    fn connless_id(id: &Id) -> [u8; 8] {
        match id {
            Id::Connless(c) => *c,
            _ => unreachable!(),
        }
    }
    fn type_id(id: &Id) -> TypeId {
        match id {
            Id::Ordinal(i) => TypeId::Ordinal(*i as u16),
            Id::Uuid(u) => TypeId::Uuid(uuid::Uuid::from_bytes(*u)),
            Id::Connless(_) => unreachable!(),
        }
    }
    /// one vector against the codec
    pub fn check(v: &Vector) {
        let what = format!("{} {:?} (vector line {})", v.section, v.id, v.line);
        match v.section.as_str() {
            "game" | "system" => {
                let mut w: Vec<Warning> = Vec::new();
                let mut p = Unpacker::new(&v.bytes);
                let mut buf: Vec<u8> = Vec::with_capacity(v.bytes.len() + 64);
                let enc: Result<Option<Vec<u8>>, ()> = if v.section == "game" {
                    match Game::decode_msg(&mut w, msg_id(&v.id), &mut p) {
                        Ok(m) => Ok(if v.ok { Some(with_packer(&mut buf, |p| m.encode_msg(p).map(|b| b.to_vec())).expect("re-encoding needs more room")) } else { None }),
                        Err(_) => Err(()),
                    }
                } else {
                    match System::decode_msg(&mut w, msg_id(&v.id), &mut p) {
                        Ok(m) => Ok(if v.ok { Some(with_packer(&mut buf, |p| m.encode_msg(p).map(|b| b.to_vec())).expect("re-encoding needs more room")) } else { None }),
                        Err(_) => Err(()),
                    }
                };
                if v.ok {
                    let enc = enc.unwrap_or_else(|_| panic!("canonical bytes rejected: {}", what));
                    assert!(w.is_empty(), "canonical bytes decode with a warning: {}", what);
                    assert!(enc.as_deref() == Some(&v.bytes[..]), "re-encoding differs from the canonical bytes: {}", what);
                } else {
                    assert!(enc.is_err(), "violation of a described constraint accepted: {}", what);
                }
            }
            "connless" => {
                use crate::msg::Connless;
                let id = connless_id(&v.id);
                let mut w: Vec<Warning> = Vec::new();
                let mut buf: Vec<u8> = Vec::with_capacity(v.bytes.len() + 64);
                match Connless::decode_connless(&mut w, id, &mut Unpacker::new(&v.bytes)) {
                    Ok(m) => {
                        assert!(v.ok, "violation of a described constraint accepted: {}", what);
                        assert!(w.is_empty(), "canonical bytes decode with a warning: {}", what);
                        assert!(m.connless_id() == id, "message reports another id: {}", what);
                        let enc = with_packer(&mut buf, |p| m.encode_connless(p).map(|b| b.to_vec())).expect("re-encoding needs more room");
                        assert!(enc == v.bytes, "re-encoding differs from the canonical bytes: {}", what);
                        // with the id in front (Connless::decode / encode)
                        let mut full = id.to_vec();
                        full.extend_from_slice(&v.bytes);
                        let mut w2: Vec<Warning> = Vec::new();
                        let m2 = Connless::decode(&mut w2, &mut Unpacker::new(&full)).unwrap_or_else(|_| panic!("canonical bytes with id rejected: {}", what));
                        assert!(w2.is_empty(), "canonical bytes with id decode with a warning: {}", what);
                        let mut buf2: Vec<u8> = Vec::with_capacity(full.len() + 64);
                        let enc2 = with_packer(&mut buf2, |p| m2.encode(p).map(|b| b.to_vec())).expect("re-encoding needs more room");
                        assert!(enc2 == full, "re-encoding with id differs from the canonical bytes: {}", what);
                    }
                    Err(_) => assert!(!v.ok, "canonical bytes rejected: {}", what),
                }
            }
            _ => {
                let mut w: Vec<ExcessData> = Vec::new();
                let mut p = IntUnpacker::new(&v.ints);
                match SnapObj::decode_obj(&mut w, type_id(&v.id), &mut p) {
                    Ok(o) => {
                        assert!(v.ok, "violation of a described constraint accepted: {}", what);
                        assert!(w.is_empty(), "canonical ints decode with a warning: {}", what);
                        // KNOWN FINDING (C14, not repaired): objects with a `bool` field are re-encoded by transmuting the
                        // struct to [i32]; the three padding bytes behind a bool are undefined, so only the low byte of such
                        // a member is compared here (see known_findings.json / DESIGN.md 13.3)
                        let enc = o.encode();
                        // (an ARRAY of bools even changes the number of ints: 0.7 de_client_info; nothing comparable then)
                        let comparable = enc.len() == v.ints.len();
                        assert!(comparable || !v.bools.is_empty(), "re-encoding has another length: {}", what);
                        for (i, (a, b)) in enc.iter().zip(v.ints.iter()).enumerate().filter(|_| comparable) {
                            let mask: i32 = if v.bools.contains(&i) { 0xff } else { -1 };
                            assert!((a ^ b) & mask == 0, "re-encoding differs from the canonical ints: {}", what);
                        }
                        assert!(o.obj_type_id() == type_id(&v.id), "object reports another type id: {}", what);
                    }
                    Err(_) => assert!(!v.ok, "canonical ints rejected: {}", what),
                }
            }
        }
    }
    /// the id framing of gamenet/common (SystemOrGame::decode_id / encode_id) around a canonical payload:
    /// packed int (id << 1 | system flag), for UUID-identified messages id 0 followed by the 16 UUID bytes
    pub fn check_framed(v: &Vector) {
        use libtw2_gamenet_common::msg::SystemOrGame;
        use libtw2_gamenet_common::traits::MessageExt;
        if !(v.ok && (v.section == "game" || v.section == "system")) {
            return;
        }
        let what = format!("framed {} {:?} (vector line {})", v.section, v.id, v.line);
        let sys = (v.section == "system") as i32;
        let frame = |head: i32| -> Vec<u8> {
            let mut b = [0u8; 8];
            let n = with_packer(&mut b[..], |mut p| {
                p.write_int(head).unwrap();
                p.written().len()
            });
            let mut f = b[..n].to_vec();
            if let Id::Uuid(u) = &v.id {
                f.extend_from_slice(u);
            }
            f.extend_from_slice(&v.bytes);
            f
        };
        let head = match &v.id {
            Id::Ordinal(i) => (*i << 1) | sys,
            Id::Uuid(_) => sys,
            Id::Connless(_) => unreachable!(),
        };
        let framed = frame(head);
        let mut w: Vec<Warning> = Vec::new();
        let mut buf: Vec<u8> = Vec::with_capacity(framed.len() + 64);
        match crate::msg::decode(&mut w, &mut Unpacker::new(&framed)) {
            Ok(SystemOrGame::Game(m)) => {
                assert!(sys == 0, "system message decoded as game message: {}", what);
                let e = with_packer(&mut buf, |p| m.encode(p).map(|b| b.to_vec())).unwrap();
                assert!(e == framed, "re-encoding of the framed message differs: {}", what);
            }
            Ok(SystemOrGame::System(m)) => {
                assert!(sys == 1, "game message decoded as system message: {}", what);
                let e = with_packer(&mut buf, |p| m.encode(p).map(|b| b.to_vec())).unwrap();
                assert!(e == framed, "re-encoding of the framed message differs: {}", what);
            }
            Err(_) => panic!("canonical framed message rejected: {}", what),
        }
        assert!(w.is_empty(), "canonical framed message decodes with a warning: {}", what);
        // an id that no description contains (negative, or far above every described ordinal) is unknown, whatever
        // follows -- in particular it is not an announcement of a UUID-identified message
        for bad in [-1i32, -2, -3, -4, i32::MIN, i32::MIN + 1, (4000 << 1) | sys, (i32::MAX >> 1 << 1) | sys] {
            let f = frame(bad);
            let mut w2: Vec<Warning> = Vec::new();
            assert!(crate::msg::decode(&mut w2, &mut Unpacker::new(&f)).is_err(), "unknown message id {} accepted: {}", bad, what);
        }
    }
    /// gamenet/common: integers written as decimal strings (connectionless messages) -- every i32 must be writable
    /// and read back as itself, in the canonical decimal form
    pub fn check_int_strings() {
        use libtw2_gamenet_common::msg::int_from_string;
        use libtw2_gamenet_common::msg::string_from_int;
        let mut vals: Vec<i32> = vec![0, i32::MIN, i32::MAX, i32::MIN + 1, i32::MAX - 1];
        let mut p: i64 = 1;
        while p <= i32::MAX as i64 {
            for d in [-1i64, 0, 1] {
                for s in [-1i64, 1] {
                    let x = s * (p + d);
                    if x >= i32::MIN as i64 && x <= i32::MAX as i64 {
                        vals.push(x as i32);
                    }
                }
            }
            p *= 10;
        }
        for x in vals {
            let s = string_from_int(x);
            assert!(&s[..] == format!("{}", x).as_bytes(), "string_from_int({}) is not the decimal form", x);
            assert!(int_from_string(&s).ok() == Some(x), "int_from_string(string_from_int({})) differs", x);
        }
    }
    static DONE: Mutex<Option<Vec<Vector>>> = Mutex::new(None);
    /// all vectors, once per process; returns the vectors for the arbitrary-bytes part
    pub fn all_vectors_once() -> Vec<Vector> {
        let mut g = DONE.lock().unwrap_or_else(|e| e.into_inner());
        if g.is_none() {
            let v = load();
            for x in &v {
                check(x);
                check_framed(x);
            }
            check_int_strings();
            println!("C14-VECTORS crate={} vectors={} all as described", env!("CARGO_PKG_NAME"), v.len());
            *g = Some(v);
        }
        g.clone().unwrap()
    }
    /// arbitrary bytes / ints for the id of a drawn vector: a value or an error, never a panic
    pub fn contract_total(v: &Vector, bytes: &[u8], ints: &[i32]) {
        match v.section.as_str() {
            "game" => {
                let mut w: Vec<Warning> = Vec::new();
                let _ = Game::decode_msg(&mut w, msg_id(&v.id), &mut Unpacker::new(bytes));
            }
            "system" => {
                let mut w: Vec<Warning> = Vec::new();
                let _ = System::decode_msg(&mut w, msg_id(&v.id), &mut Unpacker::new(bytes));
            }
            "connless" => {
                let mut w: Vec<Warning> = Vec::new();
                let _ = crate::msg::Connless::decode_connless(&mut w, connless_id(&v.id), &mut Unpacker::new(bytes));
                let mut w: Vec<Warning> = Vec::new();
                let _ = crate::msg::Connless::decode(&mut w, &mut Unpacker::new(bytes));
            }
            _ => {
                let mut w: Vec<ExcessData> = Vec::new();
                let _ = SnapObj::decode_obj(&mut w, type_id(&v.id), &mut IntUnpacker::new(ints));
            }
        }
    }
}

pub mod proofs {
    use super::draw;
    use super::draw::harness;

    #[cfg(not(kani))]
    harness!(sampled_codec_vectors_and_total, unwind = 1, {
        let vectors = super::sampled::all_vectors_once();
        let v = &vectors[draw::usize_le(vectors.len() - 1)];
        // arbitrary input: a mutation of the vector's own bytes or fresh bytes
        let mut bytes = v.bytes.clone();
        let mut ints = v.ints.clone();
        match draw::usize_le(3) {
            0 => {
                bytes = (0..draw::usize_le(24)).map(|_| draw::u8()).collect();
                ints = (0..draw::usize_le(12)).map(|_| draw::i32()).collect();
            }
            1 => {
                if !bytes.is_empty() {
                    let i = draw::usize_le(bytes.len() - 1);
                    bytes[i] = draw::u8();
                }
                if !ints.is_empty() {
                    let i = draw::usize_le(ints.len() - 1);
                    ints[i] = draw::i32();
                }
            }
            2 => {
                let c = draw::usize_le(bytes.len());
                bytes.truncate(c);
                let c = draw::usize_le(ints.len());
                ints.truncate(c);
            }
            _ => {
                bytes.extend((0..draw::usize_le(4)).map(|_| draw::u8()));
                ints.extend((0..draw::usize_le(3)).map(|_| draw::i32()));
            }
        }
        draw::reached();
        super::sampled::contract_total(v, &bytes, &ints);
    });
}
