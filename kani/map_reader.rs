// Sampled contract harness for map/src/reader.rs + map/src/format.rs (C16, map half): "open any file as a map and call
// everything the reader exposes: values or errors, never a panic".  The from_raw conversions (about 1000 lines) are not
// under a Verus contract apart from the race-layer lookup (unit map_items); this harness is SAMPLED only (native PRNG
// driver): it finds replayable counterexamples and proves nothing.
#![allow(unused_imports)]
use super::*;

#[path = "/verif/kani/draw.rs"]
mod draw;

#[cfg(not(kani))]
#[path = "/verif/kani/dfgen.rs"]
pub mod dfgen;

#[cfg(not(kani))]
pub mod sampled {
    use crate::format;
    use crate::reader::LayerTilemapType;
    use crate::reader::LayerType;
    use crate::reader::Reader;

    /// everything the map reader exposes, driven by what the file itself announces
    pub fn traverse(m: &mut Reader) {
        let _ = m.version();
        let _ = m.check_version();
        let nd = m.reader.num_data();
        if let Ok(info) = m.info() {
            for d in [info.author, info.version, info.credits, info.license].iter().flatten() {
                let _ = m.string(*d);
            }
            if let Some(s) = info.settings {
                if let Ok(s) = m.settings(s) {
                    let n = s.iter().count();
                    assert!(n <= s.raw.len());
                }
            }
        }
        for i in m.reader.item_type_indices(format::MAP_ITEMTYPE_IMAGE) {
            if let Ok(img) = m.image(i) {
                let _ = m.image_name(img.name);
                if let Some(d) = img.data {
                    let _ = m.image_data(d);
                }
            }
        }
        for i in m.group_indices() {
            let g = match m.group(i) {
                Ok(g) => g,
                Err(_) => continue,
            };
            for k in g.layer_indices.clone() {
                let l = match m.layer(k) {
                    Ok(l) => l,
                    Err(_) => continue,
                };
                match l.t {
                    LayerType::Tilemap(t) => {
                        if let Some(d) = t.type_.tiles() {
                            let _ = m.layer_tiles(t.tiles(d));
                        }
                        let _ = t.type_.to_normal();
                        match t.type_ {
                            LayerTilemapType::RaceTeleport(d, z) => {
                                let _ = m.tele_layer_tiles(t.tiles(d));
                                let _ = m.layer_tiles(t.tiles(z));
                            }
                            LayerTilemapType::RaceSpeedup(d, z) => {
                                let _ = m.speedup_layer_tiles(t.tiles(d));
                                let _ = m.layer_tiles(t.tiles(z));
                            }
                            LayerTilemapType::DdraceFront(d, z) => {
                                let _ = m.layer_tiles(t.tiles(d));
                                let _ = m.layer_tiles(t.tiles(z));
                            }
                            LayerTilemapType::DdraceSwitch(d, z) => {
                                let _ = m.switch_layer_tiles(t.tiles(d));
                                let _ = m.layer_tiles(t.tiles(z));
                            }
                            LayerTilemapType::DdraceTune(d, z) => {
                                let _ = m.tune_layer_tiles(t.tiles(d));
                                let _ = m.layer_tiles(t.tiles(z));
                            }
                            _ => {}
                        }
                    }
                    LayerType::Quads(q) => {
                        let _ = m.reader.read_data(q.data);
                    }
                    LayerType::DdraceSounds(_) => {}
                }
            }
        }
        if let Ok(gl) = m.game_layers() {
            let _ = m.layer_tiles(gl.game());
            if let Some(i) = gl.teleport() {
                let _ = m.tele_layer_tiles(i);
            }
            if let Some(i) = gl.speedup() {
                let _ = m.speedup_layer_tiles(i);
            }
            if let Some(i) = gl.front() {
                let _ = m.layer_tiles(i);
            }
            if let Some(i) = gl.switch() {
                let _ = m.switch_layer_tiles(i);
            }
            if let Some(i) = gl.tune() {
                let _ = m.tune_layer_tiles(i);
            }
        }
        // every data block through every typed accessor
        for d in 0..nd {
            let _ = m.string(d);
            let _ = m.settings(d).map(|s| s.iter().count());
            let _ = m.image_name(d);
            let _ = m.layer_tiles_raw(d);
            let _ = m.tele_layer_tiles_raw(d);
            let _ = m.speedup_layer_tiles_raw(d);
            let _ = m.switch_layer_tiles_raw(d);
            let _ = m.tune_layer_tiles_raw(d);
        }
    }
    pub fn contract_map_total(bytes: &[u8]) {
        let f = super::dfgen::TempFile::new(bytes);
        if let Ok(mut m) = Reader::open(&f.0) {
            traverse(&mut m);
        }
    }
}

pub mod proofs {
    use super::draw;
    use super::draw::harness;

    #[cfg(not(kani))]
    fn small() -> i32 {
        match draw::usize_le(9) {
            0..=5 => draw::usize_le(9) as i32 - 1,
            6 => [0x10000, 0xffff, i32::MAX, i32::MIN, -2, 1 << 20][draw::usize_le(5)],
            _ => draw::i32(),
        }
    }
    #[cfg(not(kani))]
    fn ints(n: usize) -> Vec<i32> {
        (0..n).map(|_| small()).collect()
    }
    // A datafile whose items have the type ids and roughly the layouts of map items (version, info, images,
    // envelopes, groups, layers, env points, sounds) with small / boundary / arbitrary field values, item lengths on
    // both sides of each version's length, and data blocks that are sometimes valid strings or tile arrays; optionally
    // corrupted like the datafile harness.
    /// an index that is mostly inside 0..n, sometimes -1 / n / beyond
    #[cfg(not(kani))]
    fn idx(n: usize) -> i32 {
        match draw::usize_le(11) {
            0 => -1,
            1 => n as i32,
            2 => small(),
            _ => {
                if n == 0 {
                    0
                } else {
                    draw::usize_le(n - 1) as i32
                }
            }
        }
    }
    #[cfg(not(kani))]
    harness!(sampled_map_total, unwind = 1, {
        use super::dfgen::*;
        let version = if draw::bool() { 3 } else { 4 };
        let n_images = draw::usize_le(2);
        let n_env = draw::usize_le(2);
        let n_layers = draw::usize_le(5);
        let n_groups = draw::usize_le(3);
        let n_sounds = draw::usize_le(1);
        let n_data = draw::usize_le(7);
        let mut items: Vec<DfItem> = Vec::new();
        if draw::usize_le(19) != 0 {
            items.push(DfItem { type_id: 0, id: 0, data: if draw::usize_le(19) == 0 { ints(draw::usize_le(2)) } else { vec![1] } });
        }
        if draw::usize_le(3) != 0 {
            let mut d = vec![1, idx(n_data), idx(n_data), idx(n_data), idx(n_data), idx(n_data)];
            d.truncate([6, 6, 5, draw::usize_le(6)][draw::usize_le(3)]);
            items.push(DfItem { type_id: 1, id: 0, data: d });
        }
        for k in 0..n_images {
            let ext = draw::usize_le(1) as i32;
            let mut d = vec![1 + draw::usize_le(1) as i32, draw::usize_le(5) as i32, draw::usize_le(5) as i32, ext, idx(n_data), if ext != 0 { -1 } else { idx(n_data) }, draw::usize_le(2) as i32];
            if draw::usize_le(9) == 0 {
                d.truncate(draw::usize_le(7));
            }
            items.push(DfItem { type_id: 2, id: k as u16, data: d });
        }
        for k in 0..n_env {
            items.push(DfItem { type_id: 3, id: k as u16, data: ints(draw::usize_le(14)) });
        }
        for k in 0..n_groups {
            let gv = 1 + draw::usize_le(2) as i32;
            let start = idx(n_layers + 1);
            let num = if start >= 0 && (start as usize) <= n_layers && draw::usize_le(9) != 0 { draw::usize_le(n_layers - start as usize) as i32 } else { idx(n_layers + 1) };
            let mut d = vec![gv, small(), small(), small(), small(), start, num];
            if gv >= 2 {
                d.extend([draw::usize_le(1) as i32, small(), small(), small(), small()]);
            }
            if gv >= 3 {
                d.extend(ints(3));
            }
            if draw::usize_le(9) == 0 {
                d.truncate(draw::usize_le(d.len()));
            }
            items.push(DfItem { type_id: 4, id: k as u16, data: d });
        }
        for k in 0..n_layers {
            let ty = [2, 2, 2, 2, 3, 9, 10, 7][draw::usize_le(7)];
            let mut d = vec![small(), ty, draw::usize_le(1) as i32];
            match ty {
                2 => {
                    let tv = 2 + draw::usize_le(1) as i32;
                    let flags = [0, 0, 1, 1, 2, 4, 8, 16, 32, 3][draw::usize_le(9)];
                    d.extend([tv, 1 + draw::usize_le(3) as i32, 1 + draw::usize_le(3) as i32, flags]);
                    for _ in 0..4 {
                        d.push(if draw::usize_le(15) == 0 { small() } else { draw::u8() as i32 });
                    }
                    d.extend([if draw::bool() { -1 } else { idx(n_env) }, small(), idx(n_images), idx(n_data)]);
                    if tv >= 3 {
                        d.extend(ints(3));
                    }
                    for _ in 0..draw::usize_le(5) {
                        d.push(idx(n_data));
                    }
                }
                3 => {
                    d.extend([1 + draw::usize_le(1) as i32, draw::usize_le(3) as i32, idx(n_data), idx(n_images)]);
                    d.extend(ints(draw::usize_le(3)));
                }
                _ => {
                    d.extend([1 + draw::usize_le(1) as i32, draw::usize_le(3) as i32, idx(n_data), idx(n_sounds)]);
                    d.extend(ints(draw::usize_le(3)));
                }
            }
            if draw::usize_le(9) == 0 {
                d.truncate(draw::usize_le(d.len()));
            }
            items.push(DfItem { type_id: 5, id: k as u16, data: d });
        }
        for k in 0..draw::usize_le(1) {
            items.push(DfItem { type_id: 6, id: k as u16, data: ints(draw::usize_le(12)) });
        }
        for k in 0..n_sounds {
            items.push(DfItem { type_id: 7, id: k as u16, data: vec![1, draw::usize_le(1) as i32, idx(n_data), idx(n_data), small()] });
        }
        let data: Vec<Vec<u8>> = (0..n_data)
            .map(|_| match draw::usize_le(5) {
                0 => b"name\0".to_vec(),
                1 => b"sv_x 1\0tune y 2\0".to_vec(),
                2 | 3 => {
                    let n = [0, 2, 4, 6, 8, 12, 16, 18, 24, 32, 36, 48, 54, 64, 96][draw::usize_le(14)];
                    let fill = draw::u8();
                    vec![fill; n]
                }
                _ => (0..draw::usize_le(12)).map(|_| draw::u8()).collect(),
            })
            .collect();
        let (mut bytes, lay) = write_datafile(version, &items, &data);
        if draw::usize_le(4) == 0 {
            // a single corrupted table / item word
            let lo = lay.header;
            let hi = lay.data.min(bytes.len());
            if hi > lo + 4 {
                let p = lo + 4 * draw::usize_le((hi - lo) / 4 - 1);
                bytes[p..p + 4].copy_from_slice(&small().to_le_bytes());
            }
        }
        draw::reached();
        super::sampled::contract_map_total(&bytes);
    });
}
