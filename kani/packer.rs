// Contract harnesses for libtw2-packer (property C08).
//
// This file is compiled as a private child module of the real crate through
// the one-line hook at the end of /repo/packer/src/lib.rs, so it calls the
// crate's own private `read_int` / `write_int` / `read_string` etc., not copies.
//
// Shape of every harness: assume(requires); call the real function;
// assert(ensures).  `complete_*` harnesses range over the full input domain
// with loops bounded by an operand width (5 varint bytes); `bounded_*`
// harnesses use a chosen input-length bound and are reported as bounded.

use super::*;

/// Warning sink that counts, so that "no warning" is observable.
pub struct Count {
    pub overlong: u32,
    pub padding: u32,
    pub excess: u32,
}
impl Count {
    pub fn new() -> Count {
        Count {
            overlong: 0,
            padding: 0,
            excess: 0,
        }
    }
    pub fn total(&self) -> u32 {
        self.overlong + self.padding + self.excess
    }
}
impl Warn<Warning> for Count {
    fn warn(&mut self, w: Warning) {
        match w {
            Warning::OverlongIntEncoding => self.overlong += 1,
            Warning::NonZeroIntPadding => self.padding += 1,
            Warning::ExcessData => self.excess += 1,
        }
    }
}
impl Warn<ExcessData> for Count {
    fn warn(&mut self, _: ExcessData) {
        self.excess += 1
    }
}

/// The value doc/int.md prescribes for `n` consumed bytes (1..=5), padding
/// bits ignored: ES54_3210 Ecba_9876 ... PPPP_utsr, flipped when S is set.
pub fn spec_value(b: &[u8; 5], n: usize) -> i32 {
    let mut bits: u32 = (b[0] & 0x3f) as u32;
    if n > 1 {
        bits |= ((b[1] & 0x7f) as u32) << 6;
    }
    if n > 2 {
        bits |= ((b[2] & 0x7f) as u32) << 13;
    }
    if n > 3 {
        bits |= ((b[3] & 0x7f) as u32) << 20;
    }
    if n > 4 {
        bits |= ((b[4] & 0x0f) as u32) << 27;
    }
    if b[0] & 0x40 != 0 {
        bits = !bits;
    }
    bits as i32
}

/// Number of bytes a decoder consumes from `b[..len]`, or None if the string
/// ends while the extend bit is still set.
pub fn spec_consumed(b: &[u8; 5], len: usize) -> Option<usize> {
    let mut n = 0;
    while n < 5 {
        if n >= len {
            return None;
        }
        n += 1;
        if n == 5 || b[n - 1] & 0x80 == 0 {
            return Some(n);
        }
    }
    Some(n)
}

/// Minimal number of bytes doc/int.md allows for `x` ("always use the least
/// amount of bytes possible").
pub fn spec_min_len(x: i32) -> usize {
    let m = (if x < 0 { !x } else { x }) as u32;
    if m < 1 << 6 {
        1
    } else if m < 1 << 13 {
        2
    } else if m < 1 << 20 {
        3
    } else if m < 1 << 27 {
        4
    } else {
        5
    }
}

pub fn encode(x: i32) -> ([u8; 5], usize) {
    let mut out = [0u8; 5];
    let mut n = 0usize;
    let mut calls = 0u32;
    let r: Result<(), ()> = write_int(x, |b: &[u8]| {
        calls += 1;
        for &byte in b {
            if n < 5 {
                out[n] = byte;
            }
            n += 1;
        }
        Ok(())
    });
    assert!(r.is_ok());
    assert!(calls == 1);
    (out, n)
}

/// contract write_int/read_int, all 2^32 integers:
///  ensures 1 <= len <= 5, len minimal, read_int(write_int(x)) == x,
///          everything consumed, no warning.
pub fn contract_int_roundtrip(x: i32) {
    let (bytes, n) = encode(x);
    assert!(1 <= n && n <= 5);
    assert!(n == spec_min_len(x));
    let mut warn = Count::new();
    let mut iter = bytes[..n].iter();
    let r = read_int(&mut warn, &mut iter);
    assert!(r == Ok(x));
    assert!(iter.len() == 0);
    assert!(warn.total() == 0);
}

/// contract Packer over a byte slice of every capacity 0..=7 (an int needs at most 5 bytes), after `pre` <= 2 raw
/// bytes: write_int succeeds exactly when the canonical encoding fits what is left; then exactly those bytes were
/// appended; on failure a CapacityError is reported and nothing beyond the capacity is reported as written.
pub fn contract_packer_int_capacity(x: i32, cap: usize, pre: usize) {
    if cap > 7 || pre > 2 || pre > cap {
        return;
    }
    let (bytes, n) = encode(x);
    let mut buf = [0xAAu8; 8];
    let (ok, written_len, head_ok) = with_packer(&mut buf[..cap], |mut p| {
        p.write_raw(&[0xEE, 0xEE][..pre]).unwrap();
        let ok = p.write_int(x).is_ok();
        let w = p.written();
        let mut head_ok = w.len() >= pre;
        let mut i = 0;
        while i < 2 {
            if i < pre && i < w.len() {
                head_ok = head_ok && w[i] == 0xEE;
            }
            i += 1;
        }
        (ok, w.len(), head_ok)
    });
    assert!(head_ok);
    assert!(ok == (pre + n <= cap));
    assert!(written_len <= cap);
    if ok {
        assert!(written_len == pre + n);
        let mut i = 0;
        while i < 5 {
            if i < n {
                assert!(buf[pre + i] == bytes[i]);
            }
            i += 1;
        }
    }
    // nothing past the capacity is touched
    let mut j = 0;
    while j < 8 {
        if j >= cap {
            assert!(buf[j] == 0xAA);
        }
        j += 1;
    }
}

/// contract in_range / at_least / positive / to_bool (the validators every generated codec is made of), all i32:
///   Ok(v) exactly when v satisfies the bound, the value is passed through unchanged, Err(IntOutOfRange) otherwise;
///   to_bool accepts exactly 0 and 1.
pub fn contract_range_helpers(v: i32, min: i32, max: i32) {
    assert!(in_range(v, min, max) == if min <= v && v <= max { Ok(v) } else { Err(IntOutOfRange) });
    assert!(at_least(v, min) == if min <= v { Ok(v) } else { Err(IntOutOfRange) });
    assert!(positive(v) == if v >= 0 { Ok(v) } else { Err(IntOutOfRange) });
    assert!(to_bool(v) == match v { 0 => Ok(false), 1 => Ok(true), _ => Err(IntOutOfRange) });
}
/// contract sanitize: Err(ControlCharacters) exactly when a byte below 0x20 occurs, else the same slice, no warning
pub fn contract_sanitize<const N: usize>(b: [u8; N], len: usize) {
    if len > N {
        return;
    }
    let mut w = Count::new();
    let r = sanitize(&mut w, &b[..len]);
    let mut bad = false;
    let mut i = 0;
    while i < N {
        if i < len && b[i] < 0x20 {
            bad = true;
        }
        i += 1;
    }
    assert!(r.is_err() == bad);
    if let Ok(s) = r {
        assert!(s.len() == len);
    }
    assert!(w.total() == 0);
}

/// contract read_int, every byte string of length 0..=5 (longer strings: the
/// decoder never looks past five bytes, proved by `consumed <= 5`):
///  - Err iff the string ends while the extend bit is set;
///  - otherwise value == spec_value, consumed == spec_consumed;
///  - warning-free iff consumed bytes == write_int(value).
pub fn contract_int_decode(b: [u8; 5], len: usize) {
    if len > 5 {
        return;
    }
    let mut warn = Count::new();
    let mut iter = b[..len].iter();
    let r = read_int(&mut warn, &mut iter);
    let consumed = len - iter.len();
    match spec_consumed(&b, len) {
        None => {
            assert!(r.is_err());
        }
        Some(n) => {
            assert!(consumed == n);
            // The documentation prescribes the value for zero padding bits
            // only; with non-zero padding the decoder must still return a
            // value and must warn (checked through `same` below: such a
            // string is never canonical).
            let padding_zero = n < 5 || b[4] & 0xf0 == 0;
            assert!(r.is_ok());
            let v = r.unwrap();
            if padding_zero {
                assert!(v == spec_value(&b, n));
            } else {
                assert!(warn.padding == 1);
            }
            let (canon, cn) = encode(v);
            let mut same = cn == n;
            let mut i = 0;
            while i < 5 {
                if i < n && i < cn && canon[i] != b[i] {
                    same = false;
                }
                i += 1;
            }
            assert!((warn.total() == 0) == same);
            assert!(warn.excess == 0);
        }
    }
}

/// contract to_bit: requires bit < 8; ensures result == (b as u8) << bit.
pub fn contract_to_bit(b: bool, bit: u32) {
    if bit >= 8 {
        return;
    }
    let r = to_bit(b, bit);
    assert!(r == (b as u8) << bit);
}

/// contract read_string / write_string (bounded: strings of <= N bytes):
///  write_string(s) ++ rest read back gives s and leaves rest; read_string
///  fails iff there is no NUL; never reads past the input.
pub fn contract_string_roundtrip<const N: usize>(s: [u8; N], slen: usize, rest: [u8; 2], rlen: usize) {
    if slen > N || rlen > 2 {
        return;
    }
    let mut i = 0;
    while i < N {
        if i < slen && s[i] == 0 {
            return; // requires: NUL-free
        }
        i += 1;
    }
    let mut out = [0u8; 16];
    let mut n = 0usize;
    let r: Result<(), ()> = write_string(&s[..slen], |b: &[u8]| {
        for &byte in b {
            out[n] = byte;
            n += 1;
        }
        Ok(())
    });
    assert!(r.is_ok());
    assert!(n == slen + 1);
    for k in 0..rlen {
        out[n] = rest[k];
        n += 1;
    }
    let mut iter = out[..n].iter();
    let got = read_string(&mut iter);
    match got {
        Ok(g) => {
            assert!(g.len() == slen);
            let mut k = 0;
            while k < N {
                if k < slen {
                    assert!(g[k] == s[k]);
                }
                k += 1;
            }
            assert!(iter.len() == rlen);
        }
        Err(_) => assert!(false),
    }
}

pub fn contract_string_decode<const N: usize>(b: [u8; N], len: usize) {
    if len > N {
        return;
    }
    let mut first_nul = None;
    let mut i = 0;
    while i < N {
        if i < len && b[i] == 0 && first_nul.is_none() {
            first_nul = Some(i);
        }
        i += 1;
    }
    let mut iter = b[..len].iter();
    let r = read_string(&mut iter);
    match first_nul {
        None => {
            assert!(r.is_err());
            assert!(iter.len() == 0);
        }
        Some(p) => {
            assert!(r.is_ok());
            assert!(r.unwrap().len() == p);
            assert!(iter.len() == len - p - 1);
        }
    }
}

#[path = "/verif/kani/draw.rs"]
mod draw;

pub mod proofs {
    use super::draw;
    use super::draw::harness;
    use super::*;

    harness!(complete_int_roundtrip, unwind = 7, {
        let x = draw::i32();
        draw::reached();
        contract_int_roundtrip(x);
    });

    harness!(complete_int_decode, unwind = 7, {
        let b = draw::bytes::<5>();
        let len = draw::usize();
        draw::assume(len <= 5);
        draw::reached();
        contract_int_decode(b, len);
    });

    harness!(bounded_packer_int_capacity, unwind = 9, {
        let x = draw::i32();
        let cap = draw::usize();
        let pre = draw::usize();
        draw::assume(cap <= 7 && pre <= 2 && pre <= cap);
        draw::reached();
        contract_packer_int_capacity(x, cap, pre);
    });

    harness!(complete_range_helpers, {
        let v = draw::i32();
        let min = draw::i32();
        let max = draw::i32();
        draw::reached();
        contract_range_helpers(v, min, max);
    });
    harness!(bounded_sanitize, unwind = 8, {
        let b = draw::bytes::<5>();
        let len = draw::usize();
        draw::assume(len <= 5);
        draw::reached();
        contract_sanitize::<5>(b, len);
    });

    harness!(complete_to_bit, {
        let b = draw::bool();
        let bit = draw::u32();
        draw::reached();
        contract_to_bit(b, bit);
    });

    harness!(bounded_string_roundtrip, unwind = 8, {
        let s = draw::bytes::<4>();
        let slen = draw::usize();
        let rest = draw::bytes::<2>();
        let rlen = draw::usize();
        draw::assume(slen <= 4 && rlen <= 2);
        draw::reached();
        contract_string_roundtrip::<4>(s, slen, rest, rlen);
    });

    harness!(bounded_string_decode, unwind = 8, {
        let b = draw::bytes::<6>();
        let len = draw::usize();
        draw::assume(len <= 6);
        draw::reached();
        contract_string_decode::<6>(b, len);
    });
}
