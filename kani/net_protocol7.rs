// Contract harnesses for net/src/protocol7.rs (0.7 wire format): C04, C05, C06.
// Compiled as a child module of `protocol7` (hook at the end of protocol7.rs).
use super::*;

#[path = "/verif/kani/draw.rs"]
mod draw;

pub struct Log {
    pub n: u32,
    pub last: Option<Warning>,
}
impl Log {
    pub fn new() -> Log {
        Log { n: 0, last: None }
    }
}
impl Warn<Warning> for Log {
    fn warn(&mut self, w: Warning) {
        self.n += 1;
        self.last = Some(w);
    }
}

/// contract PacketHeader::pack / PacketHeaderPacked::unpack_warn
///   requires flags < 16, ack < 1024
///   ensures  unpack_warn(pack(h)) == h, no warning, padding bits of the packed form are zero
pub fn contract_packet_header_fields(flags: u8, ack: u16, num_chunks: u8, token: [u8; 4]) {
    let h = PacketHeader { flags, ack, num_chunks, token: Token(token) };
    let p = h.pack();
    let b = p.as_bytes();
    assert!(b.len() == HEADER_SIZE);
    assert!(b[0] & 0b1100_0000 == 0);
    assert!(&b[3..7] == &token[..]);
    let mut log = Log::new();
    let back = p.unpack_warn(&mut log);
    assert!(back == h);
    assert!(log.n == 0);
}

/// contract on all seven-byte headers:
///   ensures fields in range; canonical (padding zero) => pack(unpack(b)) == b and no warning;
///           non-canonical => exactly one PacketHeaderPadding warning
pub fn contract_packet_header_bytes(b: [u8; 7]) {
    let p = PacketHeaderPacked::from_array(b);
    let mut log = Log::new();
    let h = p.unpack_warn(&mut log);
    assert!(h.flags < 16 && h.ack < 1024);
    assert!(h.num_chunks == b[2]);
    assert!(h.flags == (b[0] >> 2) & 15);
    assert!(h.ack == (((b[0] & 3) as u16) << 8) | b[1] as u16);
    assert!(h.token.0 == [b[3], b[4], b[5], b[6]]);
    let canonical = b[0] & 0b1100_0000 == 0;
    if canonical {
        assert!(log.n == 0);
        let again = h.pack();
        assert!(again.as_bytes() == &b[..]);
    } else {
        assert!(log.n == 1 && log.last == Some(Warning::PacketHeaderPadding));
    }
}

/// contract PacketHeaderConnless::pack / unpack_warn: requires flags < 16, version < 4
pub fn contract_connless_header_fields(flags: u8, version: u8, token: [u8; 4], rtoken: [u8; 4]) {
    let h = PacketHeaderConnless { flags, version, token: Token(token), response_token: Token(rtoken) };
    let p = h.pack();
    let b = p.as_bytes();
    assert!(b.len() == HEADER_SIZE_CONNLESS);
    assert!(b[0] & 0b1100_0000 == 0);
    let mut log = Log::new();
    let back = p.unpack_warn(&mut log);
    assert!(back == h);
    assert!(log.n == 0);
}

pub fn contract_connless_header_bytes(b: [u8; 9]) {
    let p = PacketHeaderConnlessPacked::from_array(b);
    let mut log = Log::new();
    let h = p.unpack_warn(&mut log);
    assert!(h.flags < 16 && h.version < 4);
    assert!(h.token.0 == [b[1], b[2], b[3], b[4]]);
    assert!(h.response_token.0 == [b[5], b[6], b[7], b[8]]);
    let canonical = b[0] & 0b1100_0000 == 0;
    if canonical {
        assert!(log.n == 0);
        assert!(h.pack().as_bytes() == &b[..]);
    } else {
        assert!(log.n == 1 && log.last == Some(Warning::PacketHeaderPadding));
    }
}

/// contract ChunkHeader::pack / unpack_warn (non-vital), requires flags < 4, size < 2^CHUNK_SIZE_BITS
pub fn contract_chunk_header_fields(flags: u8, size: u16) {
    let h = ChunkHeader { flags, size };
    let p = h.pack();
    let mut log = Log::new();
    let back = p.unpack_warn(&mut log);
    assert!(back == h);
    assert!(log.n == 0);
}

pub fn contract_chunk_header_bytes(b: [u8; 2]) {
    let p = ChunkHeaderPacked::from_array(b);
    let mut log = Log::new();
    let h = p.unpack_warn(&mut log);
    assert!(h.flags < 4 && (h.size >> CHUNK_SIZE_BITS) == 0);
    // field formulas (= spec fns ch_flags / ch_size of the Verus units)
    assert!(h.flags == (b[0] & 0b1100_0000) >> 6);
    assert!(h.size == (((b[0] & 0b0011_1111) as u16) << 6) | ((b[1] & 0b0011_1111) as u16));
    let canonical = b[1] & 0b1100_0000 == 0;
    if canonical {
        assert!(log.n == 0);
        assert!(h.pack().as_bytes() == &b[..]);
    } else {
        assert!(log.n == 1 && log.last == Some(Warning::ChunkHeaderPadding));
    }
}

/// contract ChunkHeaderVital::pack / unpack_warn, requires flags < 4, size < 4096, sequence < 1024
pub fn contract_chunk_header_vital_fields(flags: u8, size: u16, sequence: u16) {
    let h = ChunkHeaderVital {
        h: ChunkHeader { flags, size },
        sequence,
    };
    let p = h.pack();
    let mut log = Log::new();
    let back = p.unpack_warn(&mut log);
    assert!(back == h);
    assert!(log.n == 0);
}

pub fn contract_chunk_header_vital_bytes(b: [u8; 3]) {
    let p = ChunkHeaderVitalPacked::from_array(b);
    let mut log = Log::new();
    let h = p.unpack_warn(&mut log);
    assert!(h.h.flags < 4 && (h.h.size >> CHUNK_SIZE_BITS) == 0 && h.sequence < SEQUENCE_MODULUS);
    // field formulas (= spec fns ch_flags / ch_size / ch_seq of the Verus units)
    assert!(h.h.flags == (b[0] & 0b1100_0000) >> 6);
    assert!(h.h.size == (((b[0] & 0b0011_1111) as u16) << 6) | ((b[1] & 0b0011_1111) as u16));
    assert!(h.sequence == (((b[1] & 0b1100_0000) as u16) << 2) | ((b[2] & 0b1111_1111) as u16));
    // 0.7: no redundant bits, every three-byte vital header is canonical
    assert!(log.n == 0);
    assert!(h.pack().as_bytes() == &b[..]);
}

/// contract read_chunk_header on every input of <= 4 bytes:
///   None iff too short for the (vital or non-vital) header; otherwise the
///   fields of the header bytes and `rest` = input after the header (a suffix
///   of the input: never outside it).
pub fn contract_read_chunk_header(b: [u8; 4], len: usize) {
    if len > 4 {
        return;
    }
    let data = &b[..len];
    let mut log = Log::new();
    let r = read_chunk_header(&mut log, data);
    if len < 2 {
        assert!(r.is_none());
        return;
    }
    let vital = (b[0] >> 6) & CHUNKFLAG_VITAL != 0;
    if vital && len < 3 {
        assert!(r.is_none());
        return;
    }
    let (h, seq, rest) = r.unwrap();
    let hl = if vital { 3 } else { 2 };
    assert!(rest.len() == len - hl);
    assert!(rest.as_ptr() == data[hl..].as_ptr());
    assert!(seq.is_some() == vital);
    assert!(h.flags == b[0] >> 6);
    assert!((h.size >> CHUNK_SIZE_BITS) == 0);
    if let Some(s) = seq {
        assert!(s < SEQUENCE_MODULUS);
    }
}

/// contract write_chunk_impl -> read_chunk_header (what the connection layer
/// queues is what the peer's chunk iterator sees), payload length <= 2 here;
/// the header depends on the length only (Verus unit pkt_write covers every length).
pub fn contract_write_chunk_roundtrip(data: [u8; 2], len: usize, vital: bool, seq: u16, resend: bool) {
    if len > 2 || seq >= SEQUENCE_MODULUS {
        return;
    }
    let mut out = [0u8; 8];
    let v = if vital { Some((seq, resend)) } else { None };
    let w = write_chunk(&data[..len], v, &mut out[..]).unwrap();
    let hl = if vital { 3 } else { 2 };
    assert!(w.len() == hl + len);
    let mut log = Log::new();
    let (h, s, rest) = read_chunk_header(&mut log, w).unwrap();
    assert!(log.n == 0);
    assert!(h.size as usize == len);
    assert!(rest == &data[..len]);
    assert!(s == if vital { Some(seq) } else { None });
    assert!((h.flags & CHUNKFLAG_VITAL != 0) == vital);
    assert!((h.flags & CHUNKFLAG_RESEND != 0) == (vital && resend));
}

/// SAMPLED contract (C05): a chunk packet of any expressible shape -- incl. the largest payloads and compressible content, so
/// that both output forms of the writer are exercised -- is read back as the same value without a warning
#[cfg(not(kani))]
pub fn contract_packet_roundtrip(len: usize, fill: u8, seed: u32, rr: bool, num: u8, ack: u16, token: [u8; 4]) {
    let mut payload = Vec::with_capacity(len);
    let mut x = seed;
    for _ in 0..len {
        x = x.wrapping_mul(1664525).wrapping_add(1013904223);
        payload.push(match fill { 0 => 0u8, 1 => b'w', 2 => b'e', _ => (x >> 24) as u8 });
    }
    let p = Packet::Connected(ConnectedPacket {
        token: Token(token),
        ack,
        type_: ConnectedPacketType::Chunks(rr, num, &payload),
    });
    let mut out = [0u8; 2048];
    let written = match p.write(&mut out[..]) {
        Ok(w) => w,
        Err(_) => panic!("writer refused a packet that fits"),
    };
    assert!(written.len() <= 1400);
    let mut scratch = [0u8; 2048];
    let mut log = Log::new();
    let back = Packet::read(&mut log, written, &mut scratch[..]);
    match back {
        Ok(Packet::Connected(ConnectedPacket { token: t2, ack: a2, type_: ConnectedPacketType::Chunks(rr2, num2, pl2) })) => {
            assert!(t2.0 == token && a2 == ack && rr2 == rr && num2 == num);
            assert!(pl2 == &payload[..], "payload differs after write -> read");
        }
        _ => panic!("written chunk packet not read back"),
    }
    assert!(log.n == 0 || (num == 0 && !rr), "warning on reading back a written packet");
}

/// SAMPLED contract (C06): any byte string is read to a value or an error; for a chunk packet the chunk iterator yields sub-slices of
/// the payload, terminates, and its ExactSizeIterator length is the number of chunks it really yields (so `collect()` cannot panic)
#[cfg(not(kani))]
pub fn contract_read_total(data: Vec<u8>, hint_sel: usize) {
    let _ = hint_sel;
    let mut scratch = [0u8; 2048];
    let mut log = Log::new();
    if let Ok(Packet::Connected(ConnectedPacket { type_: ConnectedPacketType::Chunks(_, num, payload), .. })) = Packet::read(&mut log, &data, &mut scratch[..]) {
        let it = ChunksIter::new(payload, num);
        let mut n = 0usize;
        let mut walk = it.clone();
        while let Some(c) = walk.next_warn(&mut log) {
            n += 1;
            assert!(n <= payload.len() + 1, "chunk iterator does not terminate");
            let (p0, p1) = (payload.as_ptr() as usize, payload.as_ptr() as usize + payload.len());
            let (c0, c1) = (c.data.as_ptr() as usize, c.data.as_ptr() as usize + c.data.len());
            assert!(c.data.is_empty() || (p0 <= c0 && c1 <= p1), "chunk data outside the payload");
        }
        assert!(it.len() == n, "ExactSizeIterator::len of the chunk iterator is not the number of chunks it yields");
        let all: Vec<_> = it.collect();
        assert!(all.len() == n);
    }
}

/// SAMPLED contract of Token::random (C03: tokens handed out are never a reserved value): a random source that yields `bad`
/// unusable draws in a row (any number) before a usable one -- the result is the first usable draw, never a reserved value
#[cfg(not(kani))]
pub fn contract_token_random(bad: usize, sel: usize, good: [u8; 4]) {
    let bads: [[u8; 4]; 2] = [[0xffu8; 4], [0xffu8; 4]];
    let mut calls = 0usize;
    let tok = Token::random(|b: &mut [u8]| {
        let v = if calls < bad { bads[(sel >> (calls % 16)) & 1] } else { good };
        b.copy_from_slice(&v);
        calls += 1;
    });
    assert!(tok != TOKEN_NONE, "Token::random handed out a reserved token");
    assert!(tok.0 == good && calls == bad + 1, "Token::random did not return the first usable draw");
}

pub mod proofs {
    use super::draw;
    use super::draw::harness;
    use super::*;

    harness!(complete_packet_header_fields_v7, {
        let flags = draw::u8();
        let ack = draw::u16();
        let n = draw::u8();
        let t = draw::bytes::<4>();
        draw::assume(flags >> PACKET_FLAGS_BITS == 0 && ack >> SEQUENCE_BITS == 0);
        draw::reached();
        contract_packet_header_fields(flags, ack, n, t);
    });
    harness!(complete_packet_header_bytes_v7, {
        let b = draw::bytes::<7>();
        draw::reached();
        contract_packet_header_bytes(b);
    });
    harness!(complete_connless_header_fields_v7, {
        let flags = draw::u8();
        let version = draw::u8();
        let t = draw::bytes::<4>();
        let r = draw::bytes::<4>();
        draw::assume(flags >> PACKET_FLAGS_BITS == 0 && version >> VERSION_BITS == 0);
        draw::reached();
        contract_connless_header_fields(flags, version, t, r);
    });
    harness!(complete_connless_header_bytes_v7, {
        let b = draw::bytes::<9>();
        draw::reached();
        contract_connless_header_bytes(b);
    });
    harness!(complete_chunk_header_fields_v7, {
        let flags = draw::u8();
        let size = draw::u16();
        draw::assume(flags >> CHUNK_FLAGS_BITS == 0 && size >> CHUNK_SIZE_BITS == 0);
        draw::reached();
        contract_chunk_header_fields(flags, size);
    });
    harness!(complete_chunk_header_bytes_v7, {
        let b = draw::bytes::<2>();
        draw::reached();
        contract_chunk_header_bytes(b);
    });
    harness!(complete_chunk_header_vital_fields_v7, {
        let flags = draw::u8();
        let size = draw::u16();
        let seq = draw::u16();
        draw::assume(flags >> CHUNK_FLAGS_BITS == 0 && size >> CHUNK_SIZE_BITS == 0 && seq >> SEQUENCE_BITS == 0);
        draw::reached();
        contract_chunk_header_vital_fields(flags, size, seq);
    });
    harness!(complete_chunk_header_vital_bytes_v7, {
        let b = draw::bytes::<3>();
        draw::reached();
        contract_chunk_header_vital_bytes(b);
    });
    harness!(complete_read_chunk_header_v7, unwind = 6, {
        let b = draw::bytes::<4>();
        let len = draw::usize();
        draw::assume(len <= 4);
        draw::reached();
        contract_read_chunk_header(b, len);
    });
    harness!(bounded_write_chunk_roundtrip_v7, unwind = 10, {
        let d = draw::bytes::<2>();
        let len = draw::usize();
        let vital = draw::bool();
        let seq = draw::u16();
        let resend = draw::bool();
        draw::assume(len <= 2 && seq < SEQUENCE_MODULUS);
        draw::reached();
        contract_write_chunk_roundtrip(d, len, vital, seq, resend);
    });

    #[cfg(not(kani))]
    harness!(sampled_packet_roundtrip_v7, unwind = 1, {
        let max = 1393;
        let len = if draw::usize_le(2) == 0 { draw::usize_le(max) } else { max - draw::usize_le(8) };
        let fill = draw::usize_le(3) as u8;
        let seed = draw::u16() as u32;
        let rr = draw::bool();
        let num = draw::u8();
        let ack = draw::u16() & 0x3ff;
        let t = draw::bytes::<4>();
        draw::reached();
        contract_packet_roundtrip(len, fill, seed, rr, num, ack, t);
    });

    #[cfg(not(kani))]
    harness!(sampled_packet_read_total_v7, unwind = 1, {
        // a header (flags mostly without control / connless / compression), an announced chunk count, then chunk-shaped or random bytes
        let mut data = vec![draw::u8() & if draw::usize_le(3) == 0 { 0xff } else { 0x03 }, draw::u8(), draw::usize_le(4) as u8];
        for _ in 0..4 { data.push(draw::u8()); }
        for _ in 0..draw::usize_le(5) {
            let size = draw::usize_le(6);
            let vital = draw::bool();
            data.push(((vital as u8) << 6) | ((size >> 4) as u8 & 0x3f));
            data.push((size & 0xf) as u8 | (draw::u8() & 0xf0));
            if vital { data.push(draw::u8()); }
            for _ in 0..(if draw::usize_le(7) == 0 { draw::usize_le(6) } else { size }) { data.push(draw::u8()); }
        }
        let hint_sel = draw::usize_le(2);
        draw::reached();
        contract_read_total(data, hint_sel);
    });

    #[cfg(not(kani))]
    harness!(sampled_token_random_v7, unwind = 1, {
        let bad = [0usize, 1, 2, 7, 8, 9, 31, 100][draw::usize_le(7)];
        let sel = draw::u16() as usize;
        let mut good = draw::bytes::<4>();
        if good == [0xff; 4] || good == [0; 4] { good = [1, 2, 3, 4]; }
        draw::reached();
        contract_token_random(bad, sel, good);
    });
}
