// Sampled contract harness for net/src/net.rs (C20): the multi-peer endpoint keeps peers isolated.
// Per-call contracts of Net::{feed_impl, connect, accept, reject, disconnect, ignore, send, flush} are in the Verus unit
// `net_ep`; this harness states the property itself: an endpoint serving several addresses behaves, for each address,
// exactly like an independent Connection fed only that address's datagrams and calls.  It runs one Net next to one
// reference Connection per address, drives both with the same drawn history (remote clients are Connections of their
// own; the network drops, duplicates and injects datagrams) and compares events and outgoing datagrams per address.
// SAMPLED only (native PRNG driver): replayable counterexamples, no proof.
#![allow(unused_imports)]
use super::*;

#[path = "/verif/kani/draw.rs"]
mod draw;

#[cfg(not(kani))]
pub mod sampled {
    use super::super::Callback as NetCallback;
    use super::super::Chunk;
    use super::super::ChunkOrEvent;
    use super::super::Net;
    use super::super::PeerId;
    use crate::connection::Callback as ConnCallback;
    use crate::connection::ReceiveChunk;
    use crate::Connection;
    use crate::Timestamp;
    use libtw2_warn::Warn;
    use std::collections::BTreeMap;

    pub type Addr = u8;

    /// callback of the endpoint under test: records (address, datagram); constant "random" bytes so that the
    /// reference connections draw the same tokens
    pub struct NetCb {
        pub out: Vec<(Addr, Vec<u8>)>,
        pub now_us: u64,
    }
    impl NetCallback<Addr> for NetCb {
        type Error = ();
        fn secure_random(&mut self, buffer: &mut [u8]) {
            for (i, b) in buffer.iter_mut().enumerate() {
                *b = 0x12 + 0x22 * i as u8;
            }
        }
        fn send(&mut self, addr: Addr, data: &[u8]) -> Result<(), ()> {
            self.out.push((addr, data.to_vec()));
            Ok(())
        }
        fn time(&mut self) -> Timestamp {
            Timestamp::from_usecs_since_epoch(self.now_us)
        }
    }
    /// callback of a single connection (reference or remote client)
    pub struct ConnCb {
        pub out: Vec<Vec<u8>>,
        pub now_us: u64,
    }
    impl ConnCallback for ConnCb {
        type Error = ();
        fn secure_random(&mut self, buffer: &mut [u8]) {
            for (i, b) in buffer.iter_mut().enumerate() {
                *b = 0x12 + 0x22 * i as u8;
            }
        }
        fn send(&mut self, data: &[u8]) -> Result<(), ()> {
            self.out.push(data.to_vec());
            Ok(())
        }
        fn time(&mut self) -> Timestamp {
            Timestamp::from_usecs_since_epoch(self.now_us)
        }
    }
    pub struct Sink;
    impl<T> Warn<T> for Sink {
        fn warn(&mut self, _: T) {}
    }

    #[derive(Clone, Debug, PartialEq)]
    pub enum Ev {
        Chunk(Vec<u8>, bool),
        Connless(Vec<u8>),
        Ready,
        Disconnect(Vec<u8>),
        Connect,
    }

    #[derive(Clone, Copy, Debug)]
    pub enum Op {
        /// the remote client at this address starts connecting (once)
        ClientConnect { addr: Addr },
        ClientSend { addr: Addr, vital: bool, len: usize },
        ClientFlush { addr: Addr },
        ClientDisconnect { addr: Addr },
        /// deliver / drop / duplicate the oldest datagram travelling to the endpoint resp. to a client
        ToServer { addr: Addr, action: usize },
        ToClient { addr: Addr, action: usize },
        /// a foreign datagram from this address
        Garbage { addr: Addr, a: u8, b: u8, c: u8, len: usize },
        ServerSend { addr: Addr, vital: bool, len: usize },
        ServerFlush { addr: Addr },
        ServerDisconnect { addr: Addr },
        /// the endpoint itself connects to this address (a client-side peer on the same endpoint)
        ServerConnect { addr: Addr },
        /// accept a peer that was left pending
        ServerAccept { addr: Addr },
        Advance { ms: u64 },
        /// deliver everything in flight for this address, both ways, a few rounds (gets handshakes through)
        Pump { addr: Addr },
    }

    struct Side {
        /// the reference: an independent connection that sees only this address's traffic and calls
        reference: Option<Connection>,
        ref_cb: ConnCb,
        pid: Option<PeerId>,
        /// the remote end
        client: Connection,
        client_cb: ConnCb,
        client_started: bool,
        /// the remote client was told Ready / is gone (the State enum is private to `connection`; what the application
        /// can know from events is used instead)
        client_online: bool,
        client_gone: bool,
        /// the endpoint's peer has delivered a chunk or was told Ready: it is online
        server_online: bool,
        /// a pending peer the application has not decided about yet: the connect packet Net::accept will feed
        pending: Option<&'static [u8]>,
        to_server: Vec<Vec<u8>>,
        to_client: Vec<Vec<u8>>,
        counter: u32,
    }

    fn conn_events(pkt: crate::connection::ReceivePacket) -> Vec<Ev> {
        pkt.map(|c| match c {
            ReceiveChunk::Connected(d, v) => Ev::Chunk(d.to_vec(), v),
            ReceiveChunk::Connless(d) => Ev::Connless(d.to_vec()),
            ReceiveChunk::Ready => Ev::Ready,
            ReceiveChunk::Disconnect(r) => Ev::Disconnect(r.to_vec()),
        })
        .collect()
    }

    pub fn contract_peers_isolated(ops: &[Op], accepting: bool) {
        let mut net: Net<Addr> = if accepting { Net::server() } else { Net::client() };
        let mut cb = NetCb { out: Vec::new(), now_us: 1_000_000 };
        let mut sides: BTreeMap<Addr, Side> = BTreeMap::new();
        for a in 0..3u8 {
            sides.insert(
                a,
                Side {
                    reference: None,
                    ref_cb: ConnCb { out: Vec::new(), now_us: 1_000_000 },
                    pid: None,
                    client: Connection::new(),
                    client_cb: ConnCb { out: Vec::new(), now_us: 1_000_000 },
                    client_started: false,
                    client_online: false,
                    client_gone: false,
                    server_online: false,
                    pending: None,
                    to_server: Vec::new(),
                    to_client: Vec::new(),
                    counter: 0,
                },
            );
        }
        let mut used_pids: Vec<PeerId> = Vec::new();

        // after every step: what the endpoint sent to each address is exactly what that address's reference sent
        fn settle_outputs(cb: &mut NetCb, sides: &mut BTreeMap<Addr, Side>) {
            let sent = std::mem::take(&mut cb.out);
            for (a, s) in sides.iter_mut() {
                let mine: Vec<Vec<u8>> = sent.iter().filter(|(x, _)| x == a).map(|(_, d)| d.clone()).collect();
                let want = std::mem::take(&mut s.ref_cb.out);
                assert!(mine == want, "datagrams sent to one address differ from its independent connection");
                s.to_client.extend(mine);
            }
            for (x, _) in &sent {
                assert!(sides.contains_key(x), "datagram sent to an address that never took part");
            }
        }
        fn client_out(s: &mut Side) {
            let out = std::mem::take(&mut s.client_cb.out);
            s.to_server.extend(out);
        }

        for op in ops {
            match *op {
                Op::ClientConnect { addr } => {
                    let s = sides.get_mut(&addr).unwrap();
                    if !s.client_started {
                        s.client_started = true;
                        s.client.connect(&mut s.client_cb).unwrap();
                        client_out(s);
                    }
                }
                Op::ClientSend { addr, vital, len } => {
                    let s = sides.get_mut(&addr).unwrap();
                    if s.client_online && !s.client_gone {
                        s.counter += 1;
                        let mut d = vec![addr, s.counter as u8];
                        d.resize(len.max(2), 0x40 + addr);
                        let _ = s.client.send(&mut s.client_cb, &d, vital);
                        client_out(s);
                    }
                }
                Op::ClientDisconnect { addr } => {
                    let s = sides.get_mut(&addr).unwrap();
                    if s.client_started && !s.client_gone {
                        s.client.disconnect(&mut s.client_cb, b"quit").unwrap();
                        s.client_gone = true;
                        client_out(s);
                    }
                }
                Op::ClientFlush { addr } => {
                    let s = sides.get_mut(&addr).unwrap();
                    if s.client_online && !s.client_gone {
                        s.client.flush(&mut s.client_cb).unwrap();
                        client_out(s);
                    }
                }
                Op::ToServer { addr, action } => {
                    let data = {
                        let s = sides.get_mut(&addr).unwrap();
                        if s.to_server.is_empty() {
                            continue;
                        }
                        match action % 8 {
                            0 => {
                                s.to_server.remove(0);
                                continue;
                            }
                            1 => s.to_server[0].clone(),
                            _ => s.to_server.remove(0),
                        }
                    };
                    feed_server(&mut net, &mut cb, &mut sides, &mut used_pids, addr, &data, accepting, [0, 0, 0, 1, 2, 2][action % 6]);
                }
                Op::Garbage { addr, a, b, c, len } => {
                    let mut d = vec![a, b, c];
                    d.resize(3 + len, a ^ b);
                    feed_server(&mut net, &mut cb, &mut sides, &mut used_pids, addr, &d, accepting, [0, 0, 1, 2][len % 4]);
                }
                Op::ToClient { addr, action } => {
                    let s = sides.get_mut(&addr).unwrap();
                    if s.to_client.is_empty() {
                        continue;
                    }
                    let data = match action % 8 {
                        0 => {
                            s.to_client.remove(0);
                            continue;
                        }
                        1 => s.to_client[0].clone(),
                        _ => s.to_client.remove(0),
                    };
                    if s.client_started && !s.client_gone {
                        let mut buf = [0u8; 2048];
                        let evs = {
                            let (pkt, r) = s.client.feed(&mut s.client_cb, &mut Sink, &data, &mut buf[..]);
                            r.unwrap();
                            conn_events(pkt)
                        };
                        for e in evs {
                            match e {
                                Ev::Ready => s.client_online = true,
                                Ev::Disconnect(_) => s.client_gone = true,
                                _ => {}
                            }
                        }
                        client_out(s);
                    }
                }
                Op::ServerSend { addr, vital, len } => {
                    let s = sides.get_mut(&addr).unwrap();
                    if let (Some(pid), Some(r)) = (s.pid, s.reference.as_mut()) {
                        if s.server_online {
                            s.counter += 1;
                            let mut d = vec![0x80 | addr, s.counter as u8];
                            d.resize(len.max(2), 0x60 + addr);
                            let a = net.send(&mut cb, Chunk { pid, vital, data: &d });
                            let b = r.send(&mut s.ref_cb, &d, vital);
                            assert!(a.is_ok() == b.is_ok(), "send accepted by one and refused by the other");
                        }
                    }
                }
                Op::ServerFlush { addr } => {
                    let s = sides.get_mut(&addr).unwrap();
                    if let (Some(pid), Some(r)) = (s.pid, s.reference.as_mut()) {
                        if s.server_online {
                            net.flush(&mut cb, pid).unwrap();
                            r.flush(&mut s.ref_cb).unwrap();
                        }
                    }
                }
                Op::ServerDisconnect { addr } => {
                    let s = sides.get_mut(&addr).unwrap();
                    if let (Some(pid), Some(r)) = (s.pid, s.reference.as_mut()) {
                        if !r.is_unconnected() {
                            net.disconnect(&mut cb, pid, b"bye").unwrap();
                            r.disconnect(&mut s.ref_cb, b"bye").unwrap();
                            // a peer is gone after it was disconnected
                            s.pid = None;
                            s.reference = None;
                            s.server_online = false;
                            let mut probe = ChunkOrEvent::Chunk(Chunk { pid, vital: false, data: b"" });
                            assert!(!net.is_receive_chunk_still_valid(&mut probe), "disconnected peer still known");
                        }
                    }
                }
                Op::ServerAccept { addr } => {
                    let s = sides.get_mut(&addr).unwrap();
                    if let (Some(pid), Some(pkt), Some(r)) = (s.pid, s.pending, s.reference.as_mut()) {
                        if r.is_unconnected() {
                            net.accept(&mut cb, pid).unwrap();
                            let mut b3 = [0u8; 2048];
                            let (mut none, res) = r.feed(&mut s.ref_cb, &mut Sink, pkt, &mut b3[..]);
                            res.unwrap();
                            assert!(none.next().is_none());
                        }
                        s.pending = None;
                    }
                }
                Op::ServerConnect { addr } => {
                    let s = sides.get_mut(&addr).unwrap();
                    if s.pid.is_none() && s.reference.is_none() {
                        let (pid, r) = net.connect(&mut cb, addr);
                        r.unwrap();
                        assert!(!sides.values().any(|x| x.pid == Some(pid)), "peer id of a live peer handed out again");
                        let s = sides.get_mut(&addr).unwrap();
                        let mut c = Connection::new();
                        c.connect(&mut s.ref_cb).unwrap();
                        s.reference = Some(c);
                        s.pid = Some(pid);
                        used_pids.push(pid);
                    }
                }
                Op::Pump { addr } => {
                    for round in 0..6 {
                        if round == 3 {
                            // the remote application says hello once it is online
                            let s = sides.get_mut(&addr).unwrap();
                            if s.client_online && !s.client_gone {
                                s.counter += 1;
                                let d = vec![addr, s.counter as u8, 0x68];
                                let _ = s.client.send(&mut s.client_cb, &d, true);
                                s.client.flush(&mut s.client_cb).unwrap();
                                client_out(s);
                            }
                        }
                        loop {
                            let data = {
                                let s = sides.get_mut(&addr).unwrap();
                                if s.to_server.is_empty() {
                                    break;
                                }
                                s.to_server.remove(0)
                            };
                            feed_server(&mut net, &mut cb, &mut sides, &mut used_pids, addr, &data, accepting, 0);
                            settle_outputs(&mut cb, &mut sides);
                        }
                        let s = sides.get_mut(&addr).unwrap();
                        while !s.to_client.is_empty() {
                            let data = s.to_client.remove(0);
                            if s.client_started && !s.client_gone {
                                let mut buf = [0u8; 2048];
                                let evs = {
                                    let (pkt, r) = s.client.feed(&mut s.client_cb, &mut Sink, &data, &mut buf[..]);
                                    r.unwrap();
                                    conn_events(pkt)
                                };
                                for e in evs {
                                    match e {
                                        Ev::Ready => s.client_online = true,
                                        Ev::Disconnect(_) => s.client_gone = true,
                                        _ => {}
                                    }
                                }
                                client_out(s);
                            }
                        }
                    }
                }
                Op::Advance { ms } => {
                    cb.now_us += ms * 1000;
                    for s in sides.values_mut() {
                        s.ref_cb.now_us += ms * 1000;
                        s.client_cb.now_us += ms * 1000;
                    }
                    // the endpoint ticks every peer; each reference ticks on its own
                    let errs: Vec<()> = net.tick(&mut cb).collect();
                    assert!(errs.is_empty());
                    for s in sides.values_mut() {
                        if let Some(r) = s.reference.as_mut() {
                            r.tick(&mut s.ref_cb).unwrap();
                        }
                        if s.client_started && !s.client_gone {
                            s.client.tick(&mut s.client_cb).unwrap();
                            client_out(s);
                        }
                    }
                }
            }
            settle_outputs(&mut cb, &mut sides);
            // timing: the endpoint's deadline is the earliest deadline of its peers (a pending peer has none)
            let want = sides.values().filter_map(|s| s.reference.as_ref()).map(|r| r.needs_tick()).min().unwrap_or_default();
            assert!(net.needs_tick() == want, "tick deadline differs from the earliest deadline of the independent connections");
            // live peer ids are distinct
            let live: Vec<PeerId> = sides.values().filter_map(|s| s.pid).collect();
            for i in 0..live.len() {
                for j in 0..i {
                    assert!(live[i] != live[j], "two live peers share an id");
                }
            }
        }
    }
    /// one datagram arrives at the endpoint from `addr`; the same datagram goes to that address's reference
    fn feed_server(
        net: &mut Net<Addr>,
        cb: &mut NetCb,
        sides: &mut BTreeMap<Addr, Side>,
        used_pids: &mut Vec<PeerId>,
        addr: Addr,
        data: &[u8],
        accepting: bool,
        new_action: usize,
    ) {
        let mut buf = [0u8; 2048];
        let others_before: Vec<(Addr, Option<PeerId>)> = sides.iter().filter(|(a, _)| **a != addr).map(|(a, s)| (*a, s.pid)).collect();
        let (events, new_pid): (Vec<Ev>, Option<PeerId>) = {
            let (pkt, r) = net.feed(cb, &mut Sink, addr, data, &mut buf[..]);
            r.unwrap();
            let mut np = None;
            let evs = pkt
                .map(|e| match e {
                    ChunkOrEvent::Chunk(c) => Ev::Chunk(c.data.to_vec(), c.vital),
                    ChunkOrEvent::Connless(c) => {
                        assert!(c.addr == addr, "connless chunk attributed to another address");
                        Ev::Connless(c.data.to_vec())
                    }
                    ChunkOrEvent::Connect(pid) => {
                        np = Some(pid);
                        Ev::Connect
                    }
                    ChunkOrEvent::Ready(_) => Ev::Ready,
                    ChunkOrEvent::Disconnect(_, r) => Ev::Disconnect(r.to_vec()),
                })
                .collect();
            (evs, np)
        };
        let s = sides.get_mut(&addr).unwrap();
        if let Some(r) = s.reference.as_mut() {
            // known address: exactly what its own connection does with this datagram
            let mut buf2 = [0u8; 2048];
            let (pkt, res) = r.feed(&mut s.ref_cb, &mut Sink, data, &mut buf2[..]);
            res.unwrap();
            let want = conn_events(pkt);
            assert!(events == want, "events for a known address differ from its independent connection");
            if want.iter().any(|e| matches!(e, Ev::Chunk(..) | Ev::Ready)) {
                s.server_online = true;
            }
            if want.iter().any(|e| matches!(e, Ev::Disconnect(_))) {
                // the peer is gone after the other side disconnected
                let pid = s.pid.take().unwrap();
                s.reference = None;
                s.server_online = false;
                s.pending = None;
                let mut probe = ChunkOrEvent::Chunk(Chunk { pid, vital: false, data: b"" });
                assert!(!net.is_receive_chunk_still_valid(&mut probe), "peer still known after its disconnect");
            }
        } else {
            // unknown address: a pending peer only for a connect request on an accepting endpoint; connless
            // datagrams are passed on; everything else is dropped without a reply
            // (header: flags in the high nibble of byte 0, control = 0x10, compression = 0x80; a compressed datagram is
            // not decoded here)
            let is_connect = data.len() >= 4 && data[0] & 0x10 != 0 && (data[3] == 1 || data[0] & 0x80 != 0);
            match new_pid {
                Some(pid) => {
                    assert!(accepting, "a non-accepting endpoint created a peer for an unknown address");
                    assert!(is_connect, "a pending peer was created by something that is not a connect request");
                    assert!(events == vec![Ev::Connect]);
                    assert!(!used_pids.contains(&pid) || !sides.values().any(|x| x.pid == Some(pid)), "peer id of a live peer reused");
                    used_pids.push(pid);
                    let s = sides.get_mut(&addr).unwrap();
                    if new_action == 2 {
                        // the application leaves the peer pending: an unconnected connection of its own
                        s.pid = Some(pid);
                        s.reference = Some(Connection::new());
                        s.pending = Some(data_connect(data));
                        return;
                    }
                    if new_action == 1 {
                        // the application rejects: the peer is gone again, and what is sent is what an independent,
                        // never accepted connection sends when it is disconnected
                        net.reject(cb, pid, b"no").unwrap();
                        let mut c = Connection::new();
                        c.disconnect(&mut s.ref_cb, b"no").unwrap();
                        let mut probe = ChunkOrEvent::Chunk(Chunk { pid, vital: false, data: b"" });
                        assert!(!net.is_receive_chunk_still_valid(&mut probe), "rejected peer still known");
                        return;
                    }
                    // the application accepts: from now on the address has its own connection
                    s.pid = Some(pid);
                    let mut c = Connection::new();
                    net.accept(cb, pid).unwrap();
                    let mut b3 = [0u8; 2048];
                    {
                        let (mut none, res) = c.feed(&mut s.ref_cb, &mut Sink, data_connect(data), &mut b3[..]);
                        res.unwrap();
                        assert!(none.next().is_none());
                    }
                    s.reference = Some(c);
                }
                None => {
                    for e in &events {
                        assert!(matches!(e, Ev::Connless(_)), "an unknown address produced a connection event");
                    }
                }
            }
        }
        // traffic from one address never changes which peers the others have
        let others_after: Vec<(Addr, Option<PeerId>)> = sides.iter().filter(|(a, _)| **a != addr).map(|(a, s)| (*a, s.pid)).collect();
        assert!(others_before == others_after);
        for (a, pid) in others_after {
            if let Some(pid) = pid {
                let mut probe = ChunkOrEvent::Chunk(Chunk { pid, vital: false, data: b"" });
                assert!(net.is_receive_chunk_still_valid(&mut probe), "another address's peer vanished ({})", a);
            }
        }
    }
    /// what Net::accept feeds to the fresh connection: the connect packet with or without the token extension
    fn data_connect(data: &[u8]) -> &'static [u8] {
        if data.len() >= 8 && &data[4..8] == b"TKEN" {
            b"\x10\x00\x00\x01TKEN\xff\xff\xff\xff"
        } else {
            b"\x10\x00\x00\x01"
        }
    }
}

pub mod proofs {
    use super::draw;
    use super::draw::harness;

    #[cfg(not(kani))]
    harness!(sampled_net_peers_isolated, unwind = 1, {
        use super::sampled::*;
        let accepting = draw::usize_le(4) != 0;
        let allow_garbage = draw::usize_le(2) == 0;
        let mut ops = Vec::new();
        for _ in 0..draw::usize_le(60) {
            let addr = [0u8, 0, 0, 1, 1, 2][draw::usize_le(5)];
            let op = match draw::usize_le(20) {
                0 | 1 => Op::ClientConnect { addr },
                2 | 3 if draw::bool() => Op::Pump { addr },
                2 | 3 => Op::ClientSend { addr, vital: draw::bool(), len: [2, 5, 40, 900][draw::usize_le(3)] },
                4 => Op::ClientFlush { addr },
                5 | 6 | 7 | 8 | 9 => Op::ToServer { addr, action: 2 + draw::usize_le(5) },
                10 => Op::ToServer { addr, action: draw::usize_le(1) },
                11 | 12 | 13 => Op::ToClient { addr, action: 2 + draw::usize_le(5) },
                14 => Op::ToClient { addr, action: draw::usize_le(1) },
                15 => Op::ServerSend { addr, vital: draw::bool(), len: [2, 7, 300][draw::usize_le(2)] },
                19 => Op::ClientSend { addr, vital: true, len: 3 },
                20 if draw::usize_le(2) == 0 => Op::ClientDisconnect { addr },
                20 => Op::ServerAccept { addr },
                16 => Op::ServerFlush { addr },
                17 => match draw::usize_le(3) {
                    0 => Op::ServerDisconnect { addr },
                    1 => Op::ServerConnect { addr },
                    _ => Op::Advance { ms: [1, 499, 500, 1001][draw::usize_le(3)] },
                },
                18 => Op::Advance { ms: [1, 100, 500, 501, 1000, 3000][draw::usize_le(5)] },
                _ if allow_garbage => Op::Garbage { addr, a: draw::u8(), b: draw::u8(), c: draw::u8(), len: draw::usize_le(12) },
                _ => Op::ToServer { addr, action: 2 },
            };
            ops.push(op);
        }
        draw::reached();
        contract_peers_isolated(&ops, accepting);
    });
}
