// Contract harnesses for serverbrowse/src/protocol.rs (C18): parsing is total.
// parse_server_info is closure/macro driven over Unpacker and str::from_utf8; Kani did not finish a 6-byte harness in
// 15 minutes, Verus does not accept the closures.  The merge half of C18 is proved by the Verus unit sb_merge; the
// parsing half is only SAMPLED here (native PRNG driver): replayable counterexamples, no proof.
use super::*;

#[path = "/verif/kani/draw.rs"]
mod draw;

/// contract: parsing any datagram as a master-server or server-info response returns a value or nothing, never
/// panics; every info kind is parsed down to its fields
#[cfg(not(kani))]
pub fn contract_parse_total(d: &[u8]) {
    match parse_response(d) {
        None => {}
        Some(Response::Info5(x)) => {
            let _ = x.parse();
        }
        Some(Response::Info6(x)) => {
            let _ = x.parse();
        }
        Some(Response::Info6Ddper(x)) => {
            let _ = x.parse();
        }
        Some(Response::Info664(x)) => {
            if let Some(mut p) = x.parse() {
                let _ = p.get_info();
            }
        }
        Some(Response::Info6Ex(x)) => {
            if let Some(mut p) = x.parse() {
                let _ = p.get_info();
            }
        }
        Some(Response::Info6ExMore(x)) => {
            let _ = x.parse();
        }
        Some(Response::Info7(x)) => {
            let _ = x.parse();
        }
        Some(Response::List5(l)) => {
            for a in l.0 {
                let _ = a.unpack();
            }
        }
        Some(Response::List6(l)) => {
            for a in l.0 {
                let _ = a.unpack();
            }
        }
        Some(Response::List7(l)) => {
            for a in l.2 {
                let _ = a.unpack();
            }
        }
        Some(_) => {}
    }
}

/// contract (merging, order-freeness): the parts of a 64-player legacy info ("dtsf", each part repeats the header and
/// carries its client offset) merged in any order give the same complete info, which lists every client once.
/// (Repeated parts are not exercised here: see the known finding on `merge`.)
#[cfg(not(kani))]
pub fn contract_merge_order(clients: &[(usize, u8, i32, i32, bool)], cuts: (usize, usize), p: [usize; 3], q: [usize; 3]) {
    let names = ["a", "b", "(connecting)", "(connecting)", "zz", "nameless tee"];
    let n = clients.len();
    let (c1, c2) = (cuts.0.min(n), cuts.1.min(n).max(cuts.0.min(n)));
    let ranges = [(0, c1), (c1, c2), (c2, n)];
    let mut parts: Vec<PartialServerInfo> = Vec::new();
    for &(lo, hi) in ranges.iter() {
        if lo == hi && lo != 0 {
            continue;
        }
        let mut d: Vec<u8> = INFO_6_64.to_vec();
        let hdr = format!("7\x000.6.4\x00srv\x00dm1\x00DM\x000\x00{}\x0064\x00{}\x0064\x00{}\x00", n, n, lo);
        d.extend_from_slice(hdr.as_bytes());
        for &(name, clan, country, score, player) in &clients[lo..hi] {
            let c = format!("{}\x00c{}\x00{}\x00{}\x00{}\x00", names[name % names.len()], clan % 3, country, score, player as i32);
            d.extend_from_slice(c.as_bytes());
        }
        let part = match parse_response(&d) {
            Some(Response::Info664(x)) => x.parse().expect("a well-formed part must parse"),
            _ => panic!("a well-formed dtsf datagram was not recognised"),
        };
        parts.push(part);
    }
    let merge_in = |order: &[usize; 3]| -> Option<ServerInfo> {
        let mut idx: Vec<usize> = Vec::new();
        for &o in order.iter() {
            let o = o % parts.len();
            if !idx.contains(&o) {
                idx.push(o);
            }
        }
        for o in 0..parts.len() {
            if !idx.contains(&o) {
                idx.push(o);
            }
        }
        let mut acc = parts[idx[0]].clone();
        for &o in &idx[1..] {
            acc.merge(parts[o].clone()).expect("disjoint parts of one info must merge");
        }
        acc.get_info().cloned()
    };
    let a = merge_in(&p).expect("all clients received: the info must be complete");
    let b = merge_in(&q).expect("all clients received: the info must be complete");
    assert!(a == b, "the merged info depends on the order of merging");
    assert!(a.clients.len() == n, "every client exactly once");
}

pub mod proofs {
    #[allow(unused_imports)]
    use super::draw;
    #[allow(unused_imports)]
    use super::draw::harness;
    #[allow(unused_imports)]
    use super::*;

    // A datagram for one of the thirteen response kinds (or an unknown header), whose payload is a sequence of
    // NUL-terminated fields.  Most fields are decimal numbers (a number is also a valid string, so such payloads parse
    // deep into every text format) drawn with a bias to small values and to the i32 boundaries; some are texts,
    // empty, overlong numbers or raw bytes.  For the 0.7 info the fields are packed ints / strings.  The datagram is
    // then truncated at a drawn position.
    #[cfg(not(kani))]
    harness!(sampled_sb_parse_total, unwind = 1, {
        let kinds: [&[u8]; 14] = [
            LIST_5, LIST_6, INFO_5, INFO_6, INFO_6_DDPER, INFO_6_64, INFO_6_EX, INFO_6_EX_MORE, COUNT, TOKEN_7, LIST_7, INFO_7,
            COUNT_7, b"\xff\xff\xff\xff\xff\xff\xff\xff\xff\xffxxxx",
        ];
        let k = draw::usize_le(13);
        let mut d: Vec<u8> = kinds[k].to_vec();
        if draw::usize_le(9) == 0 {
            // disturb one header byte
            let i = draw::usize_le(d.len() - 1);
            d[i] = draw::u8();
        }
        let nfields = match draw::usize_le(3) {
            0 => draw::usize_le(12),
            1 => draw::usize_le(40),
            _ => draw::usize_le(400),
        };
        let packed = k == 11 && draw::usize_le(3) != 0;
        for _ in 0..nfields {
            let sel = draw::usize_le(19);
            if packed && sel < 12 {
                // 0.7: variable-length packed int
                let mut buf = [0u8; 8];
                let v = draw::i32();
                let n = libtw2_packer::with_packer(&mut buf[..], |mut p| {
                    p.write_int(v).unwrap();
                    p.written().len()
                });
                d.extend_from_slice(&buf[..n]);
                continue;
            }
            match sel {
                0..=11 => d.extend_from_slice(format!("{}", draw::i32()).as_bytes()),
                12 => d.extend_from_slice(format!("{}", draw::u64()).as_bytes()),
                13 => d.extend_from_slice(b"-"),
                14 => {}
                15 => d.extend_from_slice(b"name with spaces"),
                16 => d.extend_from_slice(&[0xff, 0xfe, 0x80]),
                17 => d.extend_from_slice(format!("{}", draw::usize_le(70)).as_bytes()),
                18 => d.extend_from_slice(format!("-{}", draw::usize_le(70)).as_bytes()),
                _ => d.extend_from_slice(&draw::bytes::<3>()),
            }
            d.push(0);
        }
        if draw::bool() {
            let cut = draw::usize_le(d.len());
            d.truncate(cut);
        }
        draw::reached();
        contract_parse_total(&d);
    });
    // Structured: a 64-player legacy info ("dtsf") whose header passes the sanity checks, with a drawn offset and MORE client
    // records than fit behind it (client index = offset + position, nothing bounds the records in a datagram): the bit set of
    // received clients must not be shifted out of range
    #[cfg(not(kani))]
    harness!(sampled_sb_parse_overfull_64, unwind = 1, {
        let mut d: Vec<u8> = INFO_6_64.to_vec();
        let max_clients = [16usize, 32, 64][draw::usize_le(2)];
        let num_clients = draw::usize_le(max_clients);
        let offset = draw::usize_le(70);
        for f in [
            "12345".to_string(), "0.6.4".to_string(), "name".to_string(), "dm1".to_string(), "DM".to_string(), "0".to_string(),
            format!("{}", draw::usize_le(num_clients)), format!("{}", max_clients), format!("{}", num_clients), format!("{}", max_clients),
            format!("{}", offset),
        ] {
            d.extend_from_slice(f.as_bytes());
            d.push(0);
        }
        for i in 0..draw::usize_le(72) {
            for f in [format!("p{}", i), "clan".to_string(), "-1".to_string(), format!("{}", i), "1".to_string()] {
                d.extend_from_slice(f.as_bytes());
                d.push(0);
            }
        }
        draw::reached();
        contract_parse_total(&d);
    });
    #[cfg(not(kani))]
    harness!(sampled_sb_merge_order, unwind = 1, {
        let n = draw::usize_le(10);
        let clients: Vec<(usize, u8, i32, i32, bool)> =
            (0..n).map(|_| (draw::usize_le(5), draw::u8(), draw::usize_le(3) as i32 - 1, draw::usize_le(4) as i32, draw::bool())).collect();
        let cuts = (draw::usize_le(10), draw::usize_le(10));
        let p = [draw::usize_le(2), draw::usize_le(2), draw::usize_le(2)];
        let q = [draw::usize_le(2), draw::usize_le(2), draw::usize_le(2)];
        draw::reached();
        contract_merge_order(&clients, cuts, p, q);
    });
}
