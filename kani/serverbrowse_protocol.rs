// Contract harnesses for serverbrowse/src/protocol.rs (C18).
use super::*;

#[path = "/verif/kani/draw.rs"]
mod draw;

/// parsing a datagram as an extended-info continuation ("iex+") returns a value or nothing, never panics
/// BOUNDED: datagram bodies of <= N bytes (enough for "<token>\0<packet_no>\0\0").
pub fn contract_info6exmore_total<const N: usize>(b: [u8; N], len: usize) {
    if len > N {
        return;
    }
    let _ = Info6ExMoreResponse(&b[..len]).parse();
}
/// same for the legacy 64-player info ("dtsf")
pub fn contract_info664_total<const N: usize>(b: [u8; N], len: usize) {
    if len > N {
        return;
    }
    let _ = Info664Response(&b[..len]).parse();
}

pub mod proofs {
    use super::draw;
    use super::draw::harness;
    use super::*;
    harness!(bounded_info6exmore_parse, unwind = 9, {
        let b = draw::bytes::<6>();
        let len = draw::usize();
        draw::assume(len <= 6);
        draw::reached();
        contract_info6exmore_total::<6>(b, len);
    });
}
