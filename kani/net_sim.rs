// Two connection endpoints and a lossy network, for the sampled harnesses of C01-C04 (included from
// kani/net_connection.rs and kani/net_connection7.rs; `super::*` resolves to the connection module under test, so the
// same text drives the 0.6/DDNet and the 0.7 code).  SAMPLED only: it finds replayable counterexamples and proves
// nothing; the per-call contracts are proved by the Verus units conn6 / conn7.
use super::draw;
use super::*;

pub struct Cb {
    pub out: Vec<Vec<u8>>,
    pub now_us: u64,
    pub rng: u64,
    // number of upcoming send() calls that report an error (the datagram is then not transmitted)
    pub fail: u32,
}
impl Callback for Cb {
    type Error = ();
    fn secure_random(&mut self, buffer: &mut [u8]) {
        for b in buffer.iter_mut() {
            self.rng ^= self.rng << 13;
            self.rng ^= self.rng >> 7;
            self.rng ^= self.rng << 17;
            *b = (self.rng >> 24) as u8;
        }
    }
    fn send(&mut self, data: &[u8]) -> Result<(), ()> {
        // C04: every datagram handed to the network fits the protocol's maximum
        assert!(data.len() <= 1400, "datagram larger than MAX_PACKETSIZE");
        // C04: ... and is read back by the library's own reader without error or warning, with the announced chunk count
        assert!(super::wire_clean(data), "datagram handed to send() is not read back cleanly by the library's own reader");
        if self.fail > 0 {
            self.fail -= 1;
            return Err(());
        }
        self.out.push(data.to_vec());
        Ok(())
    }
    fn time(&mut self) -> Timestamp {
        Timestamp::from_usecs_since_epoch(self.now_us)
    }
}
pub struct Sink(pub usize);
impl<T> Warn<T> for Sink {
    fn warn(&mut self, _: T) {
        self.0 += 1;
    }
}

#[derive(Clone, Copy, Debug)]
pub enum Op {
    Send { side: usize, vital: bool, len: usize, fill: u8 },
    Flush { side: usize },
    Deliver { to: usize, pick: usize },
    Drop { to: usize, pick: usize },
    Dup { to: usize, pick: usize },
    Advance { ms: u64 },
    Garbage { to: usize, a: u8, b: u8, c: u8, len: usize },
    Disconnect { side: usize, reason_len: usize },
    FailSends { side: usize, n: u32 },
}

pub fn draw_ops(max: usize) -> Vec<Op> {
    let n = draw::usize_le(max);
    // foreign datagrams only in one script out of four: the delivered-was-sent and the settle clauses are only
    // checkable without them
    let allow_garbage = draw::usize_le(3) == 0;
    let allow_disconnect = draw::usize_le(3) == 0;
    let mut v = Vec::new();
    for _ in 0..n {
        let side = draw::usize_le(1);
        // fill 0: constant 'Z'; 1: 'w' (a 15-bit Huffman code: large payloads overflow the compressor's buffer);
        // 2: pseudo-random bytes (incompressible)
        let fill = draw::usize_le(2) as u8;
        let op = match draw::usize_le(17) {
            17 => Op::FailSends { side, n: 1 + draw::usize_le(2) as u32 },
            0 | 1 | 2 => Op::Send { side, vital: true, fill, len: [3, 3, 4, 10, 40, 300, 694, 694, 1023, 1024, 1090, 1388, 1390][draw::usize_le(12)] },
            3 => Op::Send { side, vital: false, fill, len: [3, 5, 60, 1000][draw::usize_le(3)] },
            4 | 5 => Op::Flush { side },
            6 | 7 | 8 | 9 => Op::Deliver { to: side, pick: 0 },
            10 => Op::Deliver { to: side, pick: draw::usize_le(5) },
            11 => Op::Drop { to: side, pick: draw::usize_le(3) },
            12 => Op::Dup { to: side, pick: draw::usize_le(3) },
            13 | 14 => Op::Advance { ms: [1, 100, 499, 500, 501, 1000, 1001, 3000][draw::usize_le(7)] },
            15 if allow_disconnect => Op::Disconnect { side, reason_len: [0, 2, 126, 127][draw::usize_le(3)] },
            16 if allow_garbage => Op::Garbage { to: side, a: draw::u8(), b: draw::u8(), c: draw::u8(), len: draw::usize_le(12) },
            _ => Op::Deliver { to: side, pick: 0 },
        };
        v.push(op);
    }
    v
}

#[derive(Debug, Clone, PartialEq)]
enum Ev {
    Chunk(Vec<u8>, bool),
    Ready,
    Disconnect(Vec<u8>),
    Connless,
}

struct End {
    conn: Connection,
    cb: Cb,
    sent_vital: Vec<Vec<u8>>,
    sent_nonvital: Vec<Vec<u8>>,
    recv_vital: Vec<Vec<u8>>,
    ready: usize,
    reason: Option<Vec<u8>>,
    counter: u32,
    fed_valid: usize,
}

fn online(c: &Connection) -> bool {
    matches!(c.state, State::Online(_))
}

pub fn simulate(ops: &[Op], settle: bool) {
    let dbg = std::env::var("VERIF_SIM_DEBUG").is_ok();
    if dbg { println!("OPS {:?} settle={}", ops, settle); }
    let mk = |seed: u64| End {
        conn: Connection::new(),
        cb: Cb { out: Vec::new(), now_us: 1_000_000, rng: seed, fail: 0 },
        sent_vital: Vec::new(),
        sent_nonvital: Vec::new(),
        recv_vital: Vec::new(),
        ready: 0,
        reason: None,
        counter: 0,
        fed_valid: 0,
    };
    let mut e = [mk(0x9E3779B97F4A7C15), mk(0xD1B54A32D192ED03)];
    // wire[i]: datagrams in flight towards endpoint i
    let mut wire: [Vec<Vec<u8>>; 2] = [Vec::new(), Vec::new()];
    let mut garbage_fed = false;

    // endpoint 0 connects, endpoint 1 is a fresh connection that accepts
    e[0].conn.connect(&mut e[0].cb).unwrap();
    wire[1].append(&mut e[0].cb.out);

    fn feed(e: &mut [End; 2], wire: &mut [Vec<Vec<u8>>; 2], to: usize, data: &[u8], genuine: bool, from_wire: bool) {
        let mut buf = [0u8; 2048];
        let mut sink = Sink(0);
        let evs: Vec<Ev> = {
            let me = &mut e[to];
            let (pkt, res) = me.conn.feed(&mut me.cb, &mut sink, data, &mut buf[..]);
            let _ = res; // Err only for a failing send callback
            pkt.map(|c| match c {
                ReceiveChunk::Connected(d, v) => Ev::Chunk(d.to_vec(), v),
                ReceiveChunk::Ready => Ev::Ready,
                ReceiveChunk::Disconnect(r) => Ev::Disconnect(r.to_vec()),
                ReceiveChunk::Connless(_) => Ev::Connless,
            })
            .collect()
        };
        let _ = from_wire;
        e[to].fed_valid += 1;
        for ev in evs {
            match ev {
                Ev::Chunk(d, true) => {
                    // C01: the vital chunks delivered are a prefix of the vital chunks the peer submitted
                    let k = e[to].recv_vital.len();
                    if genuine || k < e[1 - to].sent_vital.len() {
                        assert!(k < e[1 - to].sent_vital.len(), "vital chunk delivered that was never sent");
                        assert!(e[1 - to].sent_vital[k] == d, "vital chunk skipped, duplicated, reordered or altered");
                    }
                    e[to].recv_vital.push(d);
                }
                Ev::Chunk(d, false) => {
                    if genuine {
                        assert!(e[1 - to].sent_nonvital.contains(&d), "non-vital chunk delivered that was never sent");
                    }
                }
                Ev::Ready => {
                    e[to].ready += 1;
                    assert!(to == 0, "the accepting side was told ready");
                    assert!(e[to].ready <= 1, "ready reported twice");
                    // (a 0.6 client without the token extension believes a spoofed ConnectAccept; only checked while no
                    // foreign datagram was injected)
                    assert!(!genuine || e[1].fed_valid >= 1, "ready before the accepting side saw anything");
                }
                Ev::Disconnect(r) => {
                    // C05: a close reason written by the peer is read back identically
                    if genuine {
                        if let Some(sent) = &e[1 - to].reason {
                            assert!(&r == sent, "disconnect reason differs from the one given by the peer");
                        }
                    }
                }
                Ev::Connless => assert!(!genuine, "connless event although none was sent"),
            }
        }
        let mut out = std::mem::take(&mut e[to].cb.out);
        wire[1 - to].append(&mut out);
    }
    fn tick(e: &mut [End; 2], wire: &mut [Vec<Vec<u8>>; 2]) {
        for i in 0..2 {
            // C02: a live connection always has a finite tick deadline
            let alive = is_connecting(&e[i].conn) || matches!(e[i].conn.state, State::Pending(_) | State::Online(_));
            let due = e[i].conn.needs_tick().to_opt();
            assert!(!alive || due.is_some(), "live connection without a tick deadline");
            if let Some(t) = due {
                if t.as_usecs_since_epoch() <= e[i].cb.now_us {
                    let _ = e[i].conn.tick(&mut e[i].cb);
                    let mut out = std::mem::take(&mut e[i].cb.out);
                    wire[1 - i].append(&mut out);
                }
            }
        }
    }

    fn st(c: &Connection) -> &'static str { match c.state { State::Unconnected => "Unconnected", State::Pending(_) => "Pending", State::Online(_) => "Online", State::Disconnected => "Disconnected", _ => "Connecting" } }
    for op in ops {
        if dbg { println!("{:?}: A={} B={} wire0={} wire1={}", op, st(&e[0].conn), st(&e[1].conn), wire[0].len(), wire[1].len()); }
        match *op {
            Op::Send { side, vital, len, fill } => {
                if !online(&e[side].conn) {
                    continue;
                }
                let me = &mut e[side];
                me.counter += 1;
                let mut d = vec![side as u8, me.counter as u8, (me.counter >> 8) as u8];
                let mut x = me.counter.wrapping_mul(2654435761);
                while d.len() < len {
                    x = x.wrapping_mul(1664525).wrapping_add(1013904223);
                    d.push(match fill { 0 => 0x5a, 1 => b'w', _ => (x >> 24) as u8 });
                }
                match me.conn.send(&mut me.cb, &d, vital) {
                    Ok(()) => {
                        if vital {
                            me.sent_vital.push(d)
                        } else {
                            me.sent_nonvital.push(d)
                        }
                    }
                    Err(Error::TooLongData) => {}
                    // a failing send callback during the implicit flush: the chunk itself was queued (C04: the connection
                    // stays usable), so it counts as submitted
                    Err(Error::Callback(())) => {
                        if vital {
                            me.sent_vital.push(d)
                        } else {
                            me.sent_nonvital.push(d)
                        }
                    }
                }
                let mut out = std::mem::take(&mut me.cb.out);
                wire[1 - side].append(&mut out);
            }
            Op::Flush { side } => {
                if online(&e[side].conn) {
                    let me = &mut e[side];
                    let _ = me.conn.flush(&mut me.cb);
                    let mut out = std::mem::take(&mut me.cb.out);
                    wire[1 - side].append(&mut out);
                }
            }
            Op::FailSends { side, n } => {
                e[side].cb.fail = n;
            }
            Op::Deliver { to, pick } => {
                if !wire[to].is_empty() {
                    let i = pick % wire[to].len();
                    let d = wire[to].remove(i);
                    feed(&mut e, &mut wire, to, &d, !garbage_fed, true);
                }
            }
            Op::Drop { to, pick } => {
                if !wire[to].is_empty() {
                    let i = pick % wire[to].len();
                    wire[to].remove(i);
                }
            }
            Op::Dup { to, pick } => {
                if !wire[to].is_empty() {
                    let i = pick % wire[to].len();
                    let d = wire[to][i].clone();
                    wire[to].push(d);
                }
            }
            Op::Advance { ms } => {
                for i in 0..2 {
                    e[i].cb.now_us += ms * 1000;
                }
                tick(&mut e, &mut wire);
            }
            Op::Disconnect { side, reason_len } => {
                let alive = is_connecting(&e[side].conn) || matches!(e[side].conn.state, State::Pending(_) | State::Online(_));
                if alive && e[side].reason.is_none() {
                    let reason: Vec<u8> = (0..reason_len).map(|i| b'a' + (i % 26) as u8).collect();
                    let me = &mut e[side];
                    let _ = me.conn.disconnect(&mut me.cb, &reason);
                    me.reason = Some(reason);
                    let mut out = std::mem::take(&mut me.cb.out);
                    wire[1 - side].append(&mut out);
                }
            }
            Op::Garbage { to, a, b, c, len } => {
                // a datagram from somewhere else (no valid token in general): must not panic; from here on the
                // delivered-was-sent clauses are only checked for what can be matched
                let mut d = vec![a, b, c];
                d.resize(3 + len, a ^ b);
                garbage_fed = true;
                feed(&mut e, &mut wire, to, &d, false, false);
            }
        }
    }
    if !settle || garbage_fed || e[0].reason.is_some() || e[1].reason.is_some() {
        return;
    }
    if matches!(e[0].conn.state, State::Disconnected) || matches!(e[1].conn.state, State::Disconnected) {
        return;
    }
    // C02 (bounded form of the liveness clause): once the network stops losing datagrams and the clock advances,
    // everything submitted is delivered within a bounded number of rounds
    if !(online(&e[0].conn) || is_connecting(&e[0].conn)) {
        return;
    }
    let mut hello_sent = false;
    e[0].cb.fail = 0;
    e[1].cb.fail = 0;
    for _round in 0..40 {
        // the application on the connecting side says something once it is online (in 0.7 the accepting side only
        // leaves Pending when the first chunk packet arrives; keep-alives do not count)
        if !hello_sent && online(&e[0].conn) {
            let me = &mut e[0];
            let d = vec![0u8, 0xff, 0xff, 0x11];
            me.conn.send(&mut me.cb, &d, true).unwrap();
            me.sent_vital.push(d);
            hello_sent = true;
        }
        if dbg { println!("settle round {}: A={} B={} wire0={:?} wire1={:?}", _round, st(&e[0].conn), st(&e[1].conn), wire[0].iter().map(|d| d.len()).collect::<Vec<_>>(), wire[1].iter().map(|d| d.len()).collect::<Vec<_>>()); }
        for to in 0..2 {
            while !wire[to].is_empty() {
                let d = wire[to].remove(0);
                feed(&mut e, &mut wire, to, &d, true, true);
            }
        }
        for i in 0..2 {
            if online(&e[i].conn) {
                e[i].conn.flush(&mut e[i].cb).unwrap();
                let mut out = std::mem::take(&mut e[i].cb.out);
                wire[1 - i].append(&mut out);
            }
        }
        for i in 0..2 {
            e[i].cb.now_us += 1_100_000;
        }
        tick(&mut e, &mut wire);
        if online(&e[0].conn)
            && online(&e[1].conn)
            && wire[0].is_empty()
            && wire[1].is_empty()
            && e[0].recv_vital.len() == e[1].sent_vital.len()
            && e[1].recv_vital.len() == e[0].sent_vital.len()
        {
            break;
        }
    }
    assert!(online(&e[0].conn) && online(&e[1].conn), "connection not established after the network became reliable");
    assert!(e[0].ready == 1, "connecting side never told ready");
    assert!(e[1].recv_vital == e[0].sent_vital, "vital chunks not all delivered after the network became reliable");
    assert!(e[0].recv_vital == e[1].sent_vital, "vital chunks not all delivered after the network became reliable");
}
